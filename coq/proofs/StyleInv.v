(* C20, game layer: StyleFacts.SInv split into the part every single counter update keeps (SCount), the part about the early
   pawn pushes that needs the game (SPush), and "at least one game". *)
From Coq Require Import ZArith QArith List Bool.
From Rawr Require Import Style StyleGame StyleFacts.
Import ListNotations.
Local Open Scope Q_scope.

Record SCount (s : SStats) : Prop := {
  c_nn : 0 <= num_wins s /\ 0 <= num_draws s /\ 0 <= num_losses s /\ 0 <= castle_same s /\ 0 <= castle_opposite s
         /\ 0 <= total_captures s /\ 0 <= total_noncaptures s /\ 0 <= checks s /\ 0 <= nonchecks s
         /\ 0 <= early_captures s /\ 0 <= mid_captures s /\ 0 <= late_captures s /\ 0 <= extreme_captures s
         /\ 0 <= short_games s /\ 0 <= medium_games s /\ 0 <= long_games s /\ 0 <= extreme_games s
         /\ 0 <= num_win_ahead s /\ 0 <= num_win_equal s /\ 0 <= num_win_behind s
         /\ 0 <= total_pawn_pushes_towards_king s /\ 0 <= num_rook_threats s /\ 0 <= num_bishop_threats s;
  c_games : num_games s == num_wins s + num_draws s + num_losses s;
  c_moves : total_moves s == total_captures s + total_noncaptures s;
  c_checks : total_moves s == checks s + nonchecks s;
  c_wins : num_wins s == num_win_ahead s + num_win_equal s + num_win_behind s;
  c_len : num_games s == short_games s + medium_games s + long_games s + extreme_games s;
  c_caps : total_captures s == early_captures s + mid_captures s + late_captures s + extreme_captures s;
  c_cd : length (capture_distance s) = 8%nat /\ nonneg (capture_distance s) /\ sumq (capture_distance s) == total_captures s;
  c_nd : length (noncapture_distance s) = 8%nat /\ nonneg (noncapture_distance s)
         /\ sumq (noncapture_distance s) == total_noncaptures s;
  c_threats : num_rook_threats s <= total_moves s /\ num_bishop_threats s <= total_moves s;
  c_towards : total_pawn_pushes_towards_king s <= total_pawn_pushes s
}.

Record SPush (s : SStats) : Prop := {
  p_len : length (early_pawn_pushes s) = 8%nat;
  p_nn : nonneg (early_pawn_pushes s);
  p_bound : dot push_weights (early_pawn_pushes s) <= (31 # 5) * total_early_moves s;
  p_early : 0 < total_pawn_pushes s -> 0 < total_early_moves s
}.

Theorem SInv_of s : 0 < num_games s -> SCount s -> SPush s -> SInv s.
Proof.
  intros Hg C P. constructor.
  - exact Hg.
  - exact (c_nn s C).
  - exact (c_games s C).
  - exact (c_moves s C).
  - exact (c_checks s C).
  - exact (c_wins s C).
  - exact (c_len s C).
  - exact (c_caps s C).
  - exact (c_cd s C).
  - exact (c_nd s C).
  - exact (c_threats s C).
  - exact (c_towards s C).
  - split; [exact (p_len s P)|split; [exact (p_nn s P)|split; [exact (p_bound s P)|exact (p_early s P)]]].
Qed.

Lemma SCount_empty : SCount empty_stats.
Proof.
  constructor; cbn; repeat split; try reflexivity; try (apply Qle_refl); try (repeat constructor; apply Qle_refl).
Qed.
Lemma SPush_empty : SPush empty_stats.
Proof.
  constructor; cbn.
  - reflexivity.
  - repeat constructor; apply Qle_refl.
  - vm_compute. discriminate.
  - intros H. vm_compute in H. discriminate.
Qed.
