(* What gen_info computes, as statements about the eight rays from the mover's king: the pin sets are sound and complete
   for "our man is the only man between the king and an enemy slider of the line's type", the x-ray sets lie on the king's
   lines, and the set `allowed` is the checking ray (slider check), the checker (leaper check), or empty (double check). *)
From Coq Require Import NArith ZArith List Bool Lia.
From Rawr Require Import Consts Bits Magic Position MoveGen MakeStages BitsFacts LsbFacts HashFacts MakeFacts KeyAbs AttackFacts RayFacts
                         GenSane GenNoDup RaySym RayGeo.
Import ListNotations.
Local Open Scope N_scope.

Definition DE := ((Z * Z) * (N -> N -> N))%type.
Definition e_ne : DE := ((1, 1)%Z, ray_ne). Definition e_nw : DE := ((-1, 1)%Z, ray_nw).
Definition e_se : DE := ((1, -1)%Z, ray_se). Definition e_sw : DE := ((-1, -1)%Z, ray_sw).
Definition e_n : DE := ((0, 1)%Z, ray_n). Definition e_s : DE := ((0, -1)%Z, ray_s).
Definition e_e : DE := ((1, 0)%Z, ray_e). Definition e_w : DE := ((-1, 0)%Z, ray_w).
Definition dir_tab : list DE := [e_ne; e_nw; e_se; e_sw; e_n; e_e; e_s; e_w].

Lemma dir_tab_exact e : In e dir_tab -> forall sq b, sq < 64 -> snd e sq b = walk_list b (ray_of sq (fst e)).
Proof.
  unfold dir_tab. cbn [In]. intros H sq b Hs.
  repeat (destruct H as [<-|H]; [cbn [fst snd e_ne e_nw e_se e_sw e_n e_s e_e e_w];
    first [exact (ray_ne_exact sq b Hs)|exact (ray_nw_exact sq b Hs)|exact (ray_se_exact sq b Hs)|exact (ray_sw_exact sq b Hs)
          |exact (ray_n_exact sq b Hs)|exact (ray_s_exact sq b Hs)|exact (ray_e_exact sq b Hs)|exact (ray_w_exact sq b Hs)]|]).
  contradiction.
Qed.
Lemma dir_tab_dirs e : In e dir_tab -> In (fst e) all_dirs.
Proof.
  unfold dir_tab, all_dirs, bishop_dirs, rook_dirs. cbn [In app]. intros H.
  repeat (destruct H as [<-|H]; [cbn [fst e_ne e_nw e_se e_sw e_n e_s e_e e_w]; tauto|]). contradiction.
Qed.
Lemma dir_tab_has d : In d all_dirs -> exists f, In (d, f) dir_tab.
Proof.
  intros H. destruct (in_all_dirs_cases d H) as [->|[->|[->|[->|[->|[->|[->| ->]]]]]]].
  - exists ray_ne. unfold dir_tab, e_ne. cbn [In]. tauto.
  - exists ray_nw. unfold dir_tab, e_nw. cbn [In]. tauto.
  - exists ray_se. unfold dir_tab, e_se. cbn [In]. tauto.
  - exists ray_sw. unfold dir_tab, e_sw. cbn [In]. tauto.
  - exists ray_n. unfold dir_tab, e_n. cbn [In]. tauto.
  - exists ray_s. unfold dir_tab, e_s. cbn [In]. tauto.
  - exists ray_e. unfold dir_tab, e_e. cbn [In]. tauto.
  - exists ray_w. unfold dir_tab, e_w. cbn [In]. tauto.
Qed.

(* ------------------------------------------------------------------ the pieces of gen_info, named *)
Definition g_k (p : Position) : N := lsb (N.land (kings p) (c_us p)).
Definition g_bq (p : Position) : N := N.land (c_them p) (N.lor (bishops p) (queens p)).
Definition g_rq (p : Position) : N := N.land (c_them p) (N.lor (rooks p) (queens p)).
Definition g_chk (p : Position) (d : Z * Z) : N := if is_diag d then g_bq p else g_rq p.
Definition g_kray (p : Position) (e : DE) : N := if is_occ (g_chk p (fst e)) then snd e (g_k p) (occupied p) else 0.
Definition g_brays (p : Position) : N := N.lor (N.lor (N.lor (g_kray p e_ne) (g_kray p e_sw)) (g_kray p e_nw)) (g_kray p e_se).
Definition g_rrays (p : Position) : N := N.lor (N.lor (N.lor (g_kray p e_n) (g_kray p e_s)) (g_kray p e_e)) (g_kray p e_w).
Definition g_kbb (p : Position) : N := N.land (c_us p) (kings p).
Definition g_patt (p : Position) : N := N.land (N.land (N.lor (north_east (g_kbb p)) (north_west (g_kbb p))) (c_them p)) (pawns p).
Definition g_natt (p : Position) : N := N.land (N.land (knights_bb (bit (g_k p))) (knights p)) (c_them p).
Definition g_batt (p : Position) : N := N.land (N.land (g_brays p) (c_them p)) (N.lor (bishops p) (queens p)).
Definition g_ratt (p : Position) : N := N.land (N.land (g_rrays p) (c_them p)) (N.lor (rooks p) (queens p)).
Definition g_att (p : Position) (d : Z * Z) : N := if is_diag d then g_batt p else g_ratt p.
Definition g_all (p : Position) : N := N.lor (N.lor (N.lor (g_patt p) (g_natt p)) (g_batt p)) (g_ratt p).

Fixpoint chain (rs : list (N * N)) (dflt : N) : N :=
  match rs with [] => dflt | (r, a) :: t => if is_occ (N.land r a) then r else chain t dflt end.
Definition g_entry (p : Position) (e : DE) : N * N := (g_kray p e, g_att p (fst e)).
Definition chain_order : list DE := [e_ne; e_nw; e_se; e_sw; e_n; e_e; e_s; e_w].

Lemma allowed_chain p : gi_allowed (gen_info p) =
  if 1 <? popcount (g_all p) then 0
  else chain (map (g_entry p) chain_order) (if is_occ (g_all p) then g_all p else bnot (c_us p)).
Proof.
  rewrite gi_allowed_eq. unfold chain_order. cbn [map chain g_entry].
  change (g_att p (fst e_ne)) with (g_batt p). change (g_att p (fst e_nw)) with (g_batt p).
  change (g_att p (fst e_se)) with (g_batt p). change (g_att p (fst e_sw)) with (g_batt p).
  change (g_att p (fst e_n)) with (g_ratt p). change (g_att p (fst e_e)) with (g_ratt p).
  change (g_att p (fst e_s)) with (g_ratt p). change (g_att p (fst e_w)) with (g_ratt p).
  unfold g_all, g_batt, g_ratt, g_brays, g_rrays.
  change (g_kray p e_sw) with (if is_occ (g_bq p) then ray_sw (g_k p) (occupied p) else 0).
  change (g_kray p e_se) with (if is_occ (g_bq p) then ray_se (g_k p) (occupied p) else 0).
  change (g_kray p e_nw) with (if is_occ (g_bq p) then ray_nw (g_k p) (occupied p) else 0).
  change (g_kray p e_ne) with (if is_occ (g_bq p) then ray_ne (g_k p) (occupied p) else 0).
  change (g_kray p e_s) with (if is_occ (g_rq p) then ray_s (g_k p) (occupied p) else 0).
  change (g_kray p e_n) with (if is_occ (g_rq p) then ray_n (g_k p) (occupied p) else 0).
  change (g_kray p e_w) with (if is_occ (g_rq p) then ray_w (g_k p) (occupied p) else 0).
  change (g_kray p e_e) with (if is_occ (g_rq p) then ray_e (g_k p) (occupied p) else 0).
  unfold g_patt, g_natt, g_kbb, g_k, g_bq, g_rq, allowed_expr. reflexivity.
Qed.

Definition pins (p : Position) (ds : list DE) (X : N) : N * N :=
  fold_right (fun e acc => pin_dir (snd e) p (g_kray p e) X acc) (0, 0) ds.
Definition pinsB p := pins p [e_sw; e_se; e_nw; e_ne] (g_bq p).
Definition pinsV p := pins p [e_s; e_n] (g_rq p).
Definition pinsH p := pins p [e_w; e_e] (g_rq p).

Lemma gi_pins p :
  gi_bpinned (gen_info p) = fst (pinsB p)
  /\ gi_bxrays (gen_info p) = N.lor (snd (pinsB p)) (g_kbb p)
  /\ gi_hpinned (gen_info p) = fst (pinsH p)
  /\ gi_rpinned (gen_info p) = N.lor (fst (pinsV p)) (fst (pinsH p))
  /\ gi_rxrays (gen_info p) = N.lor (snd (pinsH p)) (snd (pinsV p))
  /\ gi_pinned (gen_info p) = N.lor (fst (pinsB p)) (N.lor (fst (pinsV p)) (fst (pinsH p))).
Proof.
  unfold gen_info, pinsB, pinsV, pinsH, pins. cbv zeta. cbn [fold_right].
  change (g_kray p e_sw) with (if is_occ (g_bq p) then ray_sw (g_k p) (occupied p) else 0).
  change (g_kray p e_se) with (if is_occ (g_bq p) then ray_se (g_k p) (occupied p) else 0).
  change (g_kray p e_nw) with (if is_occ (g_bq p) then ray_nw (g_k p) (occupied p) else 0).
  change (g_kray p e_ne) with (if is_occ (g_bq p) then ray_ne (g_k p) (occupied p) else 0).
  change (g_kray p e_s) with (if is_occ (g_rq p) then ray_s (g_k p) (occupied p) else 0).
  change (g_kray p e_n) with (if is_occ (g_rq p) then ray_n (g_k p) (occupied p) else 0).
  change (g_kray p e_w) with (if is_occ (g_rq p) then ray_w (g_k p) (occupied p) else 0).
  change (g_kray p e_e) with (if is_occ (g_rq p) then ray_e (g_k p) (occupied p) else 0).
  unfold g_k, g_bq, g_rq, g_kbb. cbn [snd e_ne e_nw e_se e_sw e_n e_s e_e e_w].
  repeat match goal with |- context [let '(a, b) := ?x in _] => destruct x end.
  cbn [fst snd gi_bpinned gi_bxrays gi_hpinned gi_rpinned gi_rxrays gi_pinned]. repeat split; reflexivity.
Qed.

Lemma is_occ_exists Y : is_occ Y = true -> exists y, N.testbit Y y = true.
Proof. unfold is_occ. intros H. apply negb_true_iff, N.eqb_neq in H. exists (lsb Y). exact (lsb_set Y H). Qed.
Lemma is_occ_bit Y y : N.testbit Y y = true -> is_occ Y = true.
Proof. intros H. unfold is_occ. apply negb_true_iff, N.eqb_neq. intros E. rewrite E, N.bits_0 in H. discriminate. Qed.
Lemma lsb_single Y a : N.testbit Y a = true -> (forall s, N.testbit Y s = true -> s = a) -> lsb Y = a.
Proof.
  intros Ha H. apply H. apply lsb_set. intros E. rewrite E, N.bits_0 in Ha. discriminate.
Qed.

(* ------------------------------------------------------------------ one call of pin_dir *)
Section PinDir.
Variable p : Position.
Variable e : DE.
Hypothesis He : In e dir_tab.
Variable X : N.
Hypothesis HX : X = g_chk p (fst e).
Hypothesis Hk : g_k p < 64.
Let l := ray_of (g_k p) (fst e).
Let occ := occupied p.

Lemma l_lt y : In y l -> y < 64. Proof. exact (RaySym.ray_lt _ _ y). Qed.

Lemma kray_in s : N.testbit (g_kray p e) s = true -> In s l /\ N.testbit (walk_list occ l) s = true /\ is_occ X = true.
Proof.
  unfold g_kray. rewrite <- HX. destruct (is_occ X); [|rewrite N.bits_0; discriminate].
  rewrite (dir_tab_exact e He _ _ Hk). intros H. split; [exact (walk_list_in _ _ l_lt s H)|split; [exact H|reflexivity]].
Qed.

Lemma pin_dir_mono acc s :
  (N.testbit (fst acc) s = true -> N.testbit (fst (pin_dir (snd e) p (g_kray p e) X acc)) s = true)
  /\ (N.testbit (snd acc) s = true -> N.testbit (snd (pin_dir (snd e) p (g_kray p e) X acc)) s = true).
Proof.
  unfold pin_dir. destruct acc as [pn xr]. cbn [fst snd].
  destruct (is_occ (N.land (g_kray p e) (c_us p))); [|split; auto].
  destruct (is_occ (N.land _ X)); [|split; auto]. cbn [fst snd]. rewrite !N.lor_spec. split; intros ->; reflexivity.
Qed.

Lemma pin_dir_sound acc s :
  (N.testbit (fst (pin_dir (snd e) p (g_kray p e) X acc)) s = true -> N.testbit (fst acc) s = true \/ In s l)
  /\ (N.testbit (snd (pin_dir (snd e) p (g_kray p e) X acc)) s = true -> N.testbit (snd acc) s = true \/ In s l).
Proof.
  unfold pin_dir. destruct acc as [pn xr]. cbn [fst snd].
  destruct (is_occ (N.land (g_kray p e) (c_us p))) eqn:E1; [|split; auto].
  set (sq := lsb (N.land (g_kray p e) (c_us p))).
  assert (Hsq : In sq l).
  { destruct (is_occ_exists _ E1) as (y & Hy). unfold is_occ in E1. apply negb_true_iff, N.eqb_neq in E1.
    pose proof (lsb_set _ E1) as Hs. fold sq in Hs. rewrite N.land_spec in Hs. apply andb_true_iff in Hs. exact (proj1 (kray_in sq (proj1 Hs))). }
  destruct (is_occ (N.land _ X)); [|split; auto]. cbn [fst snd]. rewrite !N.lor_spec. split; intros H.
  - apply orb_true_iff in H. destruct H as [H|H]; [left; exact H|]. right.
    rewrite testbit_bit in H by exact (l_lt sq Hsq). apply N.eqb_eq in H. subst s. exact Hsq.
  - apply orb_true_iff in H. destruct H as [H|H]; [left; exact H|]. right. apply orb_true_iff in H. destruct H as [H|H].
    + rewrite (dir_tab_exact e He _ _ (l_lt sq Hsq)) in H.
      assert (Hin : In s (ray_of sq (fst e))) by (apply (walk_list_in _ _ (RaySym.ray_lt sq (fst e)) s H)).
      destruct (in_split sq l Hsq) as (l1 & l2 & El). unfold l in El.
      rewrite (fwd_ray (g_k p) (fst e) l1 sq l2 Hk (dir_tab_dirs e He) El) in Hin. unfold l. rewrite El. apply in_or_app. right. right. exact Hin.
    + exact (proj1 (kray_in s H)).
Qed.

(* completeness: our man a is the first man on the ray and the next man is an enemy slider of the ray's type *)
Lemma pin_dir_complete acc l1 a l2a x l2b :
  l = l1 ++ a :: l2a ++ x :: l2b ->
  (forall s, In s l1 -> N.testbit occ s = false) -> (forall s, In s l2a -> N.testbit occ s = false) ->
  ub p a = true -> N.testbit X x = true -> N.testbit occ x = true ->
  (forall s, ub p s = true -> N.testbit occ s = true) ->
  N.testbit (fst (pin_dir (snd e) p (g_kray p e) X acc)) a = true
  /\ forall s, (In s l1 \/ s = a \/ In s l2a \/ s = x) -> N.testbit (snd (pin_dir (snd e) p (g_kray p e) X acc)) s = true.
Proof.
  intros El H1 H2 Ha Hx Hox Hsub.
  assert (Hoa : N.testbit occ a = true) by exact (Hsub a Ha).
  assert (HXo : is_occ X = true) by exact (is_occ_bit X x Hx).
  assert (Ekr : g_kray p e = walk_list occ l).
  { unfold g_kray. rewrite <- HX, HXo. exact (dir_tab_exact e He _ _ Hk). }
  assert (Hl64 : forall y, In y (l1 ++ a :: l2a ++ x :: l2b) -> y < 64) by (rewrite <- El; exact l_lt).
  assert (Hka : N.testbit (walk_list occ l) a = true) by (rewrite El; apply walk_list_reach; [exact Hl64|exact H1]).
  assert (Hone : forall s, N.testbit (N.land (g_kray p e) (c_us p)) s = true -> s = a).
  { intros s Hs. rewrite N.land_spec, Ekr in Hs. apply andb_true_iff in Hs. destruct Hs as [Hs Hu].
    rewrite El in Hs. destruct (walk_prefix occ l1 a (l2a ++ x :: l2b) s Hl64 H1 Hoa Hs) as [Hin|E]; [|exact E].
    exfalso. pose proof (Hsub s Hu) as Ho. rewrite (H1 s Hin) in Ho. discriminate. }
  assert (Hin_a : N.testbit (N.land (g_kray p e) (c_us p)) a = true).
  { rewrite N.land_spec, Ekr, Hka. exact Ha. }
  assert (Esq : lsb (N.land (g_kray p e) (c_us p)) = a) by (apply lsb_single; assumption).
  assert (Ha64 : a < 64) by (apply Hl64; apply in_or_app; right; left; reflexivity).
  assert (Era : ray_of a (fst e) = l2a ++ x :: l2b) by (apply (fwd_ray (g_k p) (fst e) l1 a _ Hk (dir_tab_dirs e He)); exact El).
  assert (Hxr : snd e a occ = walk_list occ (l2a ++ x :: l2b)) by (rewrite (dir_tab_exact e He _ _ Ha64), Era; reflexivity).
  assert (Hl64' : forall y, In y (l2a ++ x :: l2b) -> y < 64).
  { intros y Hy. apply Hl64. apply in_or_app. right. right. exact Hy. }
  assert (Hkx : N.testbit (walk_list occ (l2a ++ x :: l2b)) x = true) by (apply walk_list_reach; [exact Hl64'|exact H2]).
  unfold pin_dir. destruct acc as [pn xr].
  rewrite (is_occ_bit _ a Hin_a), Esq. fold occ. rewrite Hxr.
  assert (Hhit : is_occ (N.land (walk_list occ (l2a ++ x :: l2b)) X) = true).
  { apply (is_occ_bit _ x). rewrite N.land_spec, Hkx. exact Hx. }
  rewrite Hhit. cbn [fst snd]. split.
  - rewrite N.lor_spec, testbit_bit, N.eqb_refl by exact Ha64. apply orb_true_r.
  - intros s Hs. rewrite !N.lor_spec. destruct Hs as [Hs|[Hs|[Hs|Hs]]].
    + rewrite Ekr, El. assert (Hw : N.testbit (walk_list occ (l1 ++ a :: l2a ++ x :: l2b)) s = true).
      { destruct (in_split s l1 Hs) as (m1 & m2 & Em). rewrite Em, <- app_assoc. cbn [app]. apply walk_list_reach.
        - intros y Hy. apply Hl64. rewrite Em, <- app_assoc. exact Hy.
        - intros y Hy. apply H1. rewrite Em. apply in_or_app. left. exact Hy. }
      rewrite Hw. rewrite !orb_true_r. reflexivity.
    + subst s. rewrite Ekr, Hka, !orb_true_r. reflexivity.
    + assert (Hw : N.testbit (walk_list occ (l2a ++ x :: l2b)) s = true).
      { destruct (in_split s l2a Hs) as (m1 & m2 & Em). rewrite Em, <- app_assoc. cbn [app]. apply walk_list_reach.
        - intros y Hy. apply Hl64'. rewrite Em, <- app_assoc. exact Hy.
        - intros y Hy. apply H2. rewrite Em. apply in_or_app. left. exact Hy. }
      rewrite Hw, orb_true_r. reflexivity.
    + subst s. rewrite Hkx, orb_true_r. reflexivity.
Qed.
End PinDir.

(* ------------------------------------------------------------------ the fold over the directions of one group *)
Section Pins.
Variable p : Position.
Hypothesis Hk : g_k p < 64.
Variable X : N.

Lemma pins_sound ds s : (forall e, In e ds -> In e dir_tab /\ X = g_chk p (fst e)) ->
  (N.testbit (fst (pins p ds X)) s = true -> exists e, In e ds /\ In s (ray_of (g_k p) (fst e)))
  /\ (N.testbit (snd (pins p ds X)) s = true -> exists e, In e ds /\ In s (ray_of (g_k p) (fst e))).
Proof.
  induction ds as [|e ds IH]; intros Hds; cbn [pins fold_right fst snd].
  - rewrite N.bits_0. split; discriminate.
  - destruct (Hds e (or_introl eq_refl)) as (He & HX).
    destruct IH as (IH1 & IH2); [intros e' He'; apply Hds; right; exact He'|].
    destruct (pin_dir_sound p e He X HX Hk (pins p ds X) s) as (S1 & S2). fold (pins p ds X). split; intros H.
    + destruct (S1 H) as [H'|H']; [destruct (IH1 H') as (e' & A & B); exists e'; split; [right; exact A|exact B]|exists e; split; [left; reflexivity|exact H']].
    + destruct (S2 H) as [H'|H']; [destruct (IH2 H') as (e' & A & B); exists e'; split; [right; exact A|exact B]|exists e; split; [left; reflexivity|exact H']].
Qed.

Lemma pins_complete ds e l1 a l2a x l2b : (forall e, In e ds -> In e dir_tab /\ X = g_chk p (fst e)) -> In e ds ->
  ray_of (g_k p) (fst e) = l1 ++ a :: l2a ++ x :: l2b ->
  (forall s, In s l1 -> N.testbit (occupied p) s = false) -> (forall s, In s l2a -> N.testbit (occupied p) s = false) ->
  ub p a = true -> N.testbit X x = true -> N.testbit (occupied p) x = true ->
  (forall s, ub p s = true -> N.testbit (occupied p) s = true) ->
  N.testbit (fst (pins p ds X)) a = true.
Proof.
  intros Hds Hin El H1 H2 Ha Hx Hox Hsub. induction ds as [|e' ds IH]; [contradiction|]. cbn [pins fold_right]. fold (pins p ds X).
  destruct (Hds e' (or_introl eq_refl)) as (He' & HX').
  destruct Hin as [->|Hin].
  - exact (proj1 (pin_dir_complete p e He' X HX' Hk (pins p ds X) l1 a l2a x l2b El H1 H2 Ha Hx Hox Hsub)).
  - apply (proj1 (pin_dir_mono p e' X (pins p ds X) a)). apply IH; [intros e'' He''; apply Hds; right; exact He''|exact Hin].
Qed.
End Pins.

(* ------------------------------------------------------------------ the set `allowed` *)
Lemma chain_sel rs dflt r0 : (exists a0, In (r0, a0) rs /\ is_occ (N.land r0 a0) = true) ->
  (forall r' a', In (r', a') rs -> is_occ (N.land r' a') = true -> r' = r0) -> chain rs dflt = r0.
Proof.
  induction rs as [|[r a] t IH]; intros (a0 & Hin & Ht) Hall; [contradiction|]. cbn [chain].
  destruct (is_occ (N.land r a)) eqn:E.
  - apply (Hall r a); [left; reflexivity|exact E].
  - destruct Hin as [Hin|Hin]; [injection Hin as -> ->; rewrite Ht in E; discriminate|].
    apply IH; [exists a0; split; assumption|]. intros r' a' Hin' Ht'. apply (Hall r' a'); [right; exact Hin'|exact Ht'].
Qed.
Lemma chain_none rs dflt : (forall r a, In (r, a) rs -> is_occ (N.land r a) = false) -> chain rs dflt = dflt.
Proof.
  induction rs as [|[r a] t IH]; intros H; [reflexivity|]. cbn [chain]. rewrite (H r a (or_introl eq_refl)).
  apply IH. intros r' a' Hin. apply H. right. exact Hin.
Qed.

Lemma pop_pos_ge1 q : 1 <= pop_pos q.
Proof. induction q as [q IH|q IH|]; cbn [pop_pos]; lia. Qed.
Lemma popcount_le1_single Y x y : (1 <? popcount Y) = false -> N.testbit Y x = true -> N.testbit Y y = true -> y = x.
Proof.
  intros Hp Hx Hy. apply N.ltb_ge in Hp.
  assert (H1 : popcount Y = 1).
  { destruct Y as [|q]; [rewrite N.bits_0 in Hx; discriminate|]. cbn [popcount] in *. pose proof (pop_pos_ge1 q). lia. }
  rewrite (lsb_unique Y x H1 Hx), (lsb_unique Y y H1 Hy). reflexivity.
Qed.

Lemma chain_order_tab e : In e chain_order <-> In e dir_tab.
Proof. unfold chain_order, dir_tab. tauto. Qed.

Section Allowed.
Variable p : Position.
Hypothesis G : Good p.
Let k := g_k p.
Let occ := occupied p.

Lemma gk_lt : g_k p < 64.
Proof. exact (ksq_lt p (g_bb p G) (g_king p G)). Qed.

Lemma chk_sub d s : N.testbit (g_chk p d) s = true -> tb p s = true /\ N.testbit occ s = true.
Proof.
  unfold g_chk, g_bq, g_rq. intros H. assert (Ht : tb p s = true).
  { destruct (is_diag d); rewrite N.land_spec in H; apply andb_true_iff in H; exact (proj1 H). }
  split; [exact Ht|]. unfold occ, occupied. rewrite N.lor_spec. unfold tb, is_set in Ht. rewrite Ht. apply orb_true_r.
Qed.

(* the attacker set of a direction's class contains the first man of the ray when it is a slider of the class *)
Lemma kray_in_rays e s : In e dir_tab -> N.testbit (g_kray p e) s = true ->
  N.testbit (if is_diag (fst e) then g_brays p else g_rrays p) s = true.
Proof.
  unfold dir_tab. cbn [In]. intros He Hs. unfold g_brays, g_rrays.
  repeat (destruct He as [<-|He]; [match goal with |- context [is_diag ?d] => let v := eval vm_compute in (is_diag d) in change (is_diag d) with v end;
                                   cbv iota; rewrite !N.lor_spec, Hs, ?orb_true_r; reflexivity|]).
  contradiction.
Qed.

Lemma checker_in_att e : In e dir_tab -> first_hit occ (g_chk p (fst e)) (ray_of k (fst e)) = true ->
  exists l1 x l2, ray_of k (fst e) = l1 ++ x :: l2 /\ (forall s, In s l1 -> N.testbit occ s = false) /\ N.testbit occ x = true
    /\ N.testbit (g_chk p (fst e)) x = true /\ N.testbit (g_kray p e) x = true /\ N.testbit (g_att p (fst e)) x = true
    /\ g_kray p e = walk_list occ (ray_of k (fst e)).
Proof.
  intros He Hf. destruct (first_hit_split _ _ _ Hf) as (l1 & x' & l2 & El & H1 & Hox & HX).
  exists l1, x', l2. split; [exact El|split; [exact H1|split; [exact Hox|split; [exact HX|]]]].
  assert (Ekr : g_kray p e = walk_list occ (ray_of k (fst e))).
  { unfold g_kray. rewrite (is_occ_bit _ x' HX). exact (dir_tab_exact e He _ _ gk_lt). }
  assert (Hkx : N.testbit (g_kray p e) x' = true).
  { rewrite Ekr, El. apply walk_list_reach; [rewrite <- El; exact (RaySym.ray_lt _ _)|exact H1]. }
  split; [exact Hkx|split; [|exact Ekr]].
  pose proof (kray_in_rays e x' He Hkx) as Hr. destruct (chk_sub _ _ HX) as (Ht & _).
  unfold g_att, g_batt, g_ratt. unfold g_chk, g_bq, g_rq in HX.
  destruct (is_diag (fst e)); rewrite !N.land_spec in *; apply andb_true_iff in HX; destruct HX as [_ HX]; rewrite Hr, HX; unfold tb, is_set in Ht; rewrite Ht; reflexivity.
Qed.

Lemma att_in_all d s : N.testbit (g_att p d) s = true -> N.testbit (g_all p) s = true.
Proof. unfold g_att, g_all. rewrite !N.lor_spec. destruct (is_diag d); intros ->; rewrite ?orb_true_r; reflexivity. Qed.

(* slider check along e: allowed is that ray's walk *)
Theorem allowed_slider e b : In e dir_tab -> first_hit occ (g_chk p (fst e)) (ray_of k (fst e)) = true ->
  N.testbit (gi_allowed (gen_info p)) b = true -> N.testbit (walk_list occ (ray_of k (fst e))) b = true.
Proof.
  intros He Hf Hb. destruct (checker_in_att e He Hf) as (l1 & x & l2 & El & H1 & Hox & HX & Hkx & Hax & Ekr).
  rewrite allowed_chain in Hb. destruct (1 <? popcount (g_all p)) eqn:Ep; [rewrite N.bits_0 in Hb; discriminate|].
  assert (Hone : forall y, N.testbit (g_all p) y = true -> y = x).
  { intros y Hy. exact (popcount_le1_single _ x y Ep (att_in_all _ _ Hax) Hy). }
  rewrite (chain_sel _ _ (g_kray p e)) in Hb; [rewrite <- Ekr; exact Hb| |].
  - exists (g_att p (fst e)). split; [apply (in_map (g_entry p)); apply chain_order_tab; exact He|].
    apply (is_occ_bit _ x). rewrite N.land_spec, Hkx, Hax. reflexivity.
  - intros r' a' Hin Ht. apply in_map_iff in Hin. destruct Hin as (e' & Ee & He'). apply chain_order_tab in He'.
    unfold g_entry in Ee. injection Ee as <- <-.
    destruct (is_occ_exists _ Ht) as (y & Hy). rewrite N.land_spec in Hy. apply andb_true_iff in Hy. destruct Hy as [Hy1 Hy2].
    pose proof (Hone y (att_in_all _ _ Hy2)) as ->.
    destruct (kray_in p e' He' _ eq_refl gk_lt x Hy1) as (Hin' & _ & Hocc').
    assert (Ed : fst e' = fst e).
    { apply (rays_disjoint k (fst e') (fst e) x gk_lt (dir_tab_dirs e' He') (dir_tab_dirs e He) Hin'). fold k. rewrite El. apply in_or_app. right. left. reflexivity. }
    unfold g_kray. rewrite (dir_tab_exact e' He' _ _ gk_lt), (dir_tab_exact e He _ _ gk_lt), Ed. reflexivity.
Qed.

(* a pawn or knight gives check: allowed is that man's square *)
Theorem allowed_leaper y b : N.testbit (N.lor (g_patt p) (g_natt p)) y = true ->
  N.testbit (gi_allowed (gen_info p)) b = true -> b = y.
Proof.
  intros Hy Hb. rewrite allowed_chain in Hb. destruct (1 <? popcount (g_all p)) eqn:Ep; [rewrite N.bits_0 in Hb; discriminate|].
  assert (Hya : N.testbit (g_all p) y = true).
  { unfold g_all. rewrite !N.lor_spec. rewrite N.lor_spec in Hy. rewrite Hy. reflexivity. }
  assert (Hone : forall z, N.testbit (g_all p) z = true -> z = y) by (intros z Hz; exact (popcount_le1_single _ y z Ep Hya Hz)).
  rewrite chain_none in Hb.
  - rewrite (is_occ_bit _ y Hya) in Hb. exact (Hone b Hb).
  - intros r a Hin. apply in_map_iff in Hin. destruct Hin as (e' & Ee & He'). unfold g_entry in Ee. injection Ee as <- <-.
    destruct (is_occ (N.land (g_kray p e') (g_att p (fst e')))) eqn:Ht; [|reflexivity]. exfalso.
    destruct (is_occ_exists _ Ht) as (z & Hz). rewrite N.land_spec in Hz. apply andb_true_iff in Hz. destruct Hz as [_ Hz2].
    pose proof (Hone z (att_in_all _ _ Hz2)) as ->.
    (* y is a pawn or a knight, and a bishop, rook or queen *)
    assert (Hy64 : y < 64).
    { apply (testbit_lt (g_all p)); [|exact Hya]. destruct (g_bb p G) as (B1 & B2 & B3 & B4 & B5 & B6 & B7 & B8).
      unfold g_all, g_patt, g_natt, g_batt, g_ratt. repeat apply lor_lt; first [apply land_lt_r; assumption|apply land_lt_l, land_lt_r; assumption]. }
    assert (Hpn : pb p 0 y = true \/ pb p 1 y = true).
    { rewrite N.lor_spec in Hy. apply orb_true_iff in Hy. unfold g_patt, g_natt in Hy. destruct Hy as [Hy|Hy]; rewrite !N.land_spec in Hy.
      - left. apply andb_true_iff in Hy. exact (proj2 Hy).
      - right. apply andb_true_iff in Hy. destruct Hy as [Hy _]. apply andb_true_iff in Hy. exact (proj2 Hy). }
    assert (Hbrq : pb p 2 y = true \/ pb p 3 y = true \/ pb p 4 y = true).
    { unfold g_att, g_batt, g_ratt in Hz2. destruct (is_diag (fst e')); rewrite !N.land_spec, N.lor_spec in Hz2;
        apply andb_true_iff in Hz2; destruct Hz2 as [_ Hz2]; apply orb_true_iff in Hz2; unfold pb, is_set; cbn [get_piece]; tauto. }
    destruct (g_wf p G y Hy64) as [(_ & _ & Hemp)|(t & j & Hj & _ & _ & Hp)].
    + destruct Hpn as [H|H]; [rewrite (Hemp 0) in H by lia|rewrite (Hemp 1) in H by lia]; discriminate.
    + assert (E01 : j = 0 \/ j = 1).
      { destruct Hpn as [H|H]; [rewrite (Hp 0) in H by lia|rewrite (Hp 1) in H by lia]; apply N.eqb_eq in H; lia. }
      destruct Hbrq as [H|[H|H]]; [rewrite (Hp 2) in H by lia|rewrite (Hp 3) in H by lia|rewrite (Hp 4) in H by lia]; apply N.eqb_eq in H; lia.
Qed.
End Allowed.
