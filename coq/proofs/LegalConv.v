(* C01 (converse half): a move of a man other than the king, not en passant, that does NOT leave the mover's king attacked
   obeys the discipline the generator follows: its target lies in `allowed`, and a pinned mover stays on the line of its pin
   (the x-ray sets).  The converse of LegalPin.nonking_legal.
   V3 `pins_struct`: strong soundness of the pin fold (a bit of the pin set is our only man between the king and an enemy
   slider of the line's type);  V2 `conv_pin`: a safe move of such a man stays between king and pinner or takes the pinner;
   V4: the same in the generator's vocabulary;  V1 `conv_allowed`: the target of a safe move lies in `allowed`. *)
From Coq Require Import NArith ZArith List Bool Lia ZifyN ZifyBool.
From Rawr Require Import Consts Bits Magic Position MoveGen MakeMove MakeStages
                         BitsFacts ShiftFacts LsbFacts HashFacts MakeFacts KeyAbs AttackFacts AttackSets RayFacts
                         GenSane GenNoDup RaySym Closure EpRetro LegalBase RayGeo PinFacts LegalPin.
From Rawr Require LegalEp.
Import ListNotations.
Local Open Scope N_scope.
Ltac Zify.zify_post_hook ::= Z.div_mod_to_equations.

(* ------------------------------------------------------------------ geometry: three sweeps over the rays from a square *)
(* no two squares of one ray are a knight's move apart *)
Definition kn_ok (k : N) (d : Z * Z) : bool :=
  forallb (fun s => forallb (fun t => negb (N.testbit (knights_bb (bit s)) t)) (ray_of k d)) (ray_of k d).
Lemma kn_ok_all : forallb (fun k => forallb (kn_ok k) all_dirs) sq64_list = true.
Proof. vm_compute. reflexivity. Qed.
Lemma ray_no_knight k d s t : k < 64 -> In d all_dirs -> In s (ray_of k d) -> In t (ray_of k d) ->
  N.testbit (knights_bb (bit s)) t = false.
Proof.
  intros Hk Hd H1 H2. pose proof kn_ok_all as A. rewrite forallb_forall in A. specialize (A k (in_sq64 k Hk)).
  rewrite forallb_forall in A. specialize (A d Hd). unfold kn_ok in A. rewrite forallb_forall in A. specialize (A s H1).
  rewrite forallb_forall in A. specialize (A t H2). apply negb_true_iff in A. exact A.
Qed.

(* a ray that is not vertical never contains two squares of one file one or two ranks apart *)
Definition nonvert : list (Z * Z) := bishop_dirs ++ [(1, 0); (-1, 0)]%Z.
Definition up_ok (k : N) (d : Z * Z) : bool :=
  forallb (fun s => negb (memb (s + 8) (ray_of k d)) && negb (memb (s + 16) (ray_of k d))) (ray_of k d).
Lemma up_ok_all : forallb (fun k => forallb (up_ok k) nonvert) sq64_list = true.
Proof. vm_compute. reflexivity. Qed.
Lemma ray_no_up k d s : k < 64 -> In d nonvert -> In s (ray_of k d) -> ~ In (s + 8) (ray_of k d) /\ ~ In (s + 16) (ray_of k d).
Proof.
  intros Hk Hd H1. pose proof up_ok_all as A. rewrite forallb_forall in A. specialize (A k (in_sq64 k Hk)).
  rewrite forallb_forall in A. specialize (A d Hd). unfold up_ok in A. rewrite forallb_forall in A. specialize (A s H1).
  apply andb_true_iff in A. destruct A as [A1 A2]. apply negb_true_iff in A1, A2.
  split; [exact (memb_not_in _ _ A1)|exact (memb_not_in _ _ A2)].
Qed.

(* a file or a rank never contains two squares 7 or 9 apart *)
Definition cap_ok (k : N) (d : Z * Z) : bool :=
  forallb (fun s => negb (memb (s + 7) (ray_of k d)) && negb (memb (s + 9) (ray_of k d))) (ray_of k d).
Lemma cap_ok_all : forallb (fun k => forallb (cap_ok k) rook_dirs) sq64_list = true.
Proof. vm_compute. reflexivity. Qed.
Lemma ray_no_cap k d s : k < 64 -> In d rook_dirs -> In s (ray_of k d) -> ~ In (s + 7) (ray_of k d) /\ ~ In (s + 9) (ray_of k d).
Proof.
  intros Hk Hd H1. pose proof cap_ok_all as A. rewrite forallb_forall in A. specialize (A k (in_sq64 k Hk)).
  rewrite forallb_forall in A. specialize (A d Hd). unfold cap_ok in A. rewrite forallb_forall in A. specialize (A s H1).
  apply andb_true_iff in A. destruct A as [A1 A2]. apply negb_true_iff in A1, A2.
  split; [exact (memb_not_in _ _ A1)|exact (memb_not_in _ _ A2)].
Qed.

(* ------------------------------------------------------------------ directions and table entries *)
Lemma negd_all d : In d all_dirs -> In (negd d) all_dirs.
Proof.
  intros H. destruct (in_all_dirs_cases d H) as [->|[->|[->|[->|[->|[->|[->| ->]]]]]]];
    unfold negd, all_dirs, bishop_dirs, rook_dirs; cbn [fst snd Z.opp app In]; tauto.
Qed.
Lemma negd_bishop d : In d bishop_dirs -> In (negd d) bishop_dirs.
Proof. unfold bishop_dirs. cbn [In]. intros [<-|[<-|[<-|[<-|[]]]]]; unfold negd; cbn [fst snd Z.opp]; tauto. Qed.
Lemma negd_rook d : In d rook_dirs -> In (negd d) rook_dirs.
Proof. unfold rook_dirs. cbn [In]. intros [<-|[<-|[<-|[<-|[]]]]]; unfold negd; cbn [fst snd Z.opp]; tauto. Qed.
Lemma class_clash d : In d bishop_dirs -> In d rook_dirs -> False.
Proof. intros H1 H2. destruct (diag_class d H1) as (E1 & _). destruct (orth_class d H2) as (E2 & _). congruence. Qed.

Definition dsB : list DE := [e_sw; e_se; e_nw; e_ne].
Definition dsV : list DE := [e_s; e_n].
Definition dsH : list DE := [e_w; e_e].
Lemma entB p en : In en dsB -> In en dir_tab /\ g_bq p = g_chk p (fst en).
Proof. unfold dsB, dir_tab. cbn [In]. intros [<-|[<-|[<-|[<-|[]]]]]; (split; [tauto|reflexivity]). Qed.
Lemma entV p en : In en dsV -> In en dir_tab /\ g_rq p = g_chk p (fst en).
Proof. unfold dsV, dir_tab. cbn [In]. intros [<-|[<-|[]]]; (split; [tauto|reflexivity]). Qed.
Lemma entH p en : In en dsH -> In en dir_tab /\ g_rq p = g_chk p (fst en).
Proof. unfold dsH, dir_tab. cbn [In]. intros [<-|[<-|[]]]; (split; [tauto|reflexivity]). Qed.
Lemma dirB en : In en dsB -> In (fst en) bishop_dirs.
Proof. unfold dsB, bishop_dirs. cbn [In]. intros [<-|[<-|[<-|[<-|[]]]]]; cbn [fst e_sw e_se e_nw e_ne]; tauto. Qed.
Lemma dirV en : In en dsV -> In (fst en) rook_dirs.
Proof. unfold dsV, rook_dirs. cbn [In]. intros [<-|[<-|[]]]; cbn [fst e_s e_n]; tauto. Qed.
Lemma dirH en : In en dsH -> In (fst en) rook_dirs /\ In (fst en) nonvert.
Proof. unfold dsH, rook_dirs, nonvert, bishop_dirs. cbn [In app]. intros [<-|[<-|[]]]; cbn [fst e_w e_e]; tauto. Qed.
Lemma bishop_nonvert d : In d bishop_dirs -> In d nonvert.
Proof. intros H. unfold nonvert. apply in_or_app. left. exact H. Qed.

Lemma in_mid (l1 : list N) a l2 b : In b (l1 ++ a :: l2) -> In b l1 \/ b = a \/ In b l2.
Proof. intros H. apply in_app_or in H. destruct H as [H|[H|H]]; [left; exact H|right; left; symmetry; exact H|right; right; exact H]. Qed.

(* two distinct bits of a board with more than one bit *)
Lemma pos_has_bit q : exists i, N.testbit (Npos q) i = true.
Proof. exists (lsb (Npos q)). apply lsb_set. discriminate. Qed.
Lemma pop_gt1_two q : 1 < pop_pos q -> exists y1 y2, y1 <> y2 /\ N.testbit (Npos q) y1 = true /\ N.testbit (Npos q) y2 = true.
Proof.
  induction q as [q IH|q IH|]; cbn [pop_pos]; intros H.
  - destruct (pos_has_bit q) as (i & Hi). exists 0, (N.succ i). split; [lia|split; [reflexivity|]].
    change (Npos q~1) with (2 * Npos q + 1). rewrite N.testbit_odd_succ by lia. exact Hi.
  - destruct (IH H) as (y1 & y2 & Hn & H1 & H2). exists (N.succ y1), (N.succ y2). split; [lia|].
    change (Npos q~0) with (2 * Npos q). rewrite !N.testbit_even_succ by lia. split; assumption.
  - lia.
Qed.
Lemma popcount_gt1_two Y : (1 <? popcount Y) = true -> exists y1 y2, y1 <> y2 /\ N.testbit Y y1 = true /\ N.testbit Y y2 = true.
Proof.
  intros H. apply N.ltb_lt in H. destruct Y as [|q]; cbn [popcount] in H; [lia|]. exact (pop_gt1_two q H).
Qed.

(* the first occupied square of a list is unique *)
Lemma first_occ_unique occ (l1 : list N) y1 l2 l1' y2 l2' : l1 ++ y1 :: l2 = l1' ++ y2 :: l2' ->
  (forall s, In s l1 -> N.testbit occ s = false) -> (forall s, In s l1' -> N.testbit occ s = false) ->
  N.testbit occ y1 = true -> N.testbit occ y2 = true -> y1 = y2 /\ l1 = l1'.
Proof.
  revert l1'. induction l1 as [|s t IH]; intros l1' E V1 V2 O1 O2.
  - destruct l1' as [|s' t']; cbn [app] in E; injection E as E1 E2; [split; [exact E1|reflexivity]|].
    exfalso. rewrite E1, (V2 s' (or_introl eq_refl)) in O1. discriminate.
  - destruct l1' as [|s' t']; cbn [app] in E; injection E as E1 E2.
    + exfalso. rewrite E1 in V1. rewrite (V1 y2 (or_introl eq_refl)) in O2. discriminate.
    + destruct (IH t' E2) as (A & B); [intros x Hx; apply V1; right; exact Hx|intros x Hx; apply V2; right; exact Hx|exact O1|exact O2|].
      split; [exact A|rewrite E1, B; reflexivity].
Qed.

(* ------------------------------------------------------------------ V3: what a bit of a pin set means *)
Section PinStruct.
Variable p : Position.
Hypothesis G : Good p.
Local Notation k := (g_k p).
Local Notation occ := (occupied p).

Lemma pin_dir_struct e X acc a : In e dir_tab -> X = g_chk p (fst e) ->
  N.testbit (fst (pin_dir (snd e) p (g_kray p e) X acc)) a = true ->
  N.testbit (fst acc) a = true
  \/ exists l1 l2a x l2b, ray_of k (fst e) = l1 ++ a :: l2a ++ x :: l2b
       /\ (forall s, In s l1 -> N.testbit occ s = false) /\ (forall s, In s l2a -> N.testbit occ s = false)
       /\ ub p a = true /\ N.testbit X x = true /\ N.testbit occ x = true.
Proof.
  intros He HX. pose proof (gk_lt p G) as Hk.
  unfold pin_dir. destruct acc as [pn xr]. cbv zeta. cbn [fst snd].
  destruct (is_occ (N.land (g_kray p e) (c_us p))) eqn:E1; [|intros H; left; exact H].
  set (sq := lsb (N.land (g_kray p e) (c_us p))).
  assert (Hs : N.testbit (N.land (g_kray p e) (c_us p)) sq = true).
  { apply lsb_set. unfold is_occ in E1. apply negb_true_iff, N.eqb_neq in E1. exact E1. }
  rewrite N.land_spec in Hs. apply andb_true_iff in Hs. destruct Hs as [Hs1 Hs2].
  destruct (kray_in p e He X HX Hk sq Hs1) as (Hin & Hw & _).
  assert (Hsq64 : sq < 64) by exact (RaySym.ray_lt _ _ sq Hin).
  destruct (is_occ (N.land (snd e sq (occupied p)) X)) eqn:E2; [|intros H; left; exact H].
  cbn [fst]. rewrite N.lor_spec. intros H. apply orb_true_iff in H. destruct H as [H|H]; [left; exact H|right].
  rewrite testbit_bit in H by exact Hsq64. apply N.eqb_eq in H. rewrite H. clear H a.
  destruct (walk_list_split occ _ sq (RaySym.ray_lt k (fst e)) Hw) as (l1 & l2 & El & H1).
  destruct (is_occ_exists _ E2) as (x & Hx). rewrite N.land_spec in Hx. apply andb_true_iff in Hx. destruct Hx as [Hx1 Hx2].
  rewrite (dir_tab_exact e He _ _ Hsq64) in Hx1.
  rewrite (fwd_ray k (fst e) l1 sq l2 Hk (dir_tab_dirs e He) El) in Hx1.
  assert (Hl2 : forall y, In y l2 -> y < 64).
  { intros y Hy. apply (RaySym.ray_lt k (fst e)). rewrite El. apply in_or_app. right. right. exact Hy. }
  destruct (walk_list_split occ l2 x Hl2 Hx1) as (l2a & l2b & El2 & H2).
  exists l1, l2a, x, l2b. rewrite El, El2.
  split; [reflexivity|split; [exact H1|split; [exact H2|split; [exact Hs2|split; [exact Hx2|]]]]].
  rewrite HX in Hx2. exact (proj2 (chk_sub p (fst e) x Hx2)).
Qed.

Theorem pins_struct ds X a : (forall e, In e ds -> In e dir_tab /\ X = g_chk p (fst e)) ->
  N.testbit (fst (pins p ds X)) a = true ->
  exists e l1 l2a x l2b, In e ds /\ ray_of k (fst e) = l1 ++ a :: l2a ++ x :: l2b
    /\ (forall s, In s l1 -> N.testbit occ s = false) /\ (forall s, In s l2a -> N.testbit occ s = false)
    /\ ub p a = true /\ N.testbit X x = true /\ N.testbit occ x = true.
Proof.
  induction ds as [|e ds IH]; intros Hds H.
  - cbn [pins fold_right fst] in H. rewrite N.bits_0 in H. discriminate.
  - cbn [pins fold_right] in H. fold (pins p ds X) in H. destruct (Hds e (or_introl eq_refl)) as (He & HX).
    destruct (pin_dir_struct e X (pins p ds X) a He HX H) as [H'|(l1 & l2a & x & l2b & R)].
    + destruct (IH (fun e' He' => Hds e' (or_intror He')) H') as (e' & l1 & l2a & x & l2b & Hin & R).
      exists e', l1, l2a, x, l2b. split; [right; exact Hin|exact R].
    + exists e, l1, l2a, x, l2b. split; [left; reflexivity|exact R].
Qed.

(* slider check along e with at most one checker: `allowed` is exactly that ray's walk *)
Lemma allowed_is_ray e : In e dir_tab -> (1 <? popcount (g_all p)) = false ->
  first_hit occ (g_chk p (fst e)) (ray_of k (fst e)) = true ->
  gi_allowed (gen_info p) = walk_list occ (ray_of k (fst e)).
Proof.
  intros He Ep Hf. destruct (checker_in_att p G e He Hf) as (l1 & x & l2 & El & H1 & Hox & HX & Hkx & Hax & Ekr).
  rewrite allowed_chain, Ep.
  assert (Hone : forall y, N.testbit (g_all p) y = true -> y = x).
  { intros y Hy. exact (popcount_le1_single _ x y Ep (att_in_all _ _ _ Hax) Hy). }
  rewrite (chain_sel _ _ (g_kray p e)); [exact Ekr| |].
  - exists (g_att p (fst e)). split; [apply (in_map (g_entry p)); apply chain_order_tab; exact He|].
    apply (is_occ_bit _ x). rewrite N.land_spec, Hkx, Hax. reflexivity.
  - intros r' a' Hin Ht. apply in_map_iff in Hin. destruct Hin as (e' & Ee & He'). apply chain_order_tab in He'.
    unfold g_entry in Ee. injection Ee as <- <-.
    destruct (is_occ_exists _ Ht) as (y & Hy). rewrite N.land_spec in Hy. apply andb_true_iff in Hy. destruct Hy as [Hy1 Hy2].
    pose proof (Hone y (att_in_all _ _ _ Hy2)) as ->.
    destruct (kray_in p e' He' _ eq_refl (gk_lt p G) x Hy1) as (Hin' & _ & Hocc').
    assert (Ed : fst e' = fst e).
    { apply (rays_disjoint k (fst e') (fst e) x (gk_lt p G) (dir_tab_dirs e' He') (dir_tab_dirs e He) Hin'). rewrite El. apply in_or_app. right. left. reflexivity. }
    unfold g_kray. rewrite (dir_tab_exact e' He' _ _ (gk_lt p G)), (dir_tab_exact e He _ _ (gk_lt p G)), Ed. reflexivity.
Qed.

(* the members of a slider attacker set: first man of a king ray, and an enemy slider of the ray's type *)
Lemma att_chk d s : N.testbit (g_att p d) s = true -> N.testbit (g_chk p d) s = true.
Proof.
  unfold g_att, g_chk, g_batt, g_ratt, g_bq, g_rq. destruct (is_diag d); rewrite !N.land_spec; intros H;
    apply andb_true_iff in H; destruct H as [H H2]; apply andb_true_iff in H; destruct H as [_ H1]; rewrite H1, H2; reflexivity.
Qed.
Lemma kray_first e s : In e dir_tab -> N.testbit (g_kray p e) s = true -> N.testbit (g_chk p (fst e)) s = true ->
  exists l1 l2, ray_of k (fst e) = l1 ++ s :: l2 /\ (forall y, In y l1 -> N.testbit occ y = false).
Proof.
  intros He Hs _. destruct (kray_in p e He _ eq_refl (gk_lt p G) s Hs) as (_ & Hw & _).
  exact (walk_list_split occ _ s (RaySym.ray_lt k (fst e)) Hw).
Qed.
Lemma slider_struct y : N.testbit (N.lor (g_batt p) (g_ratt p)) y = true ->
  exists e l1 l2, In e dir_tab /\ ray_of k (fst e) = l1 ++ y :: l2 /\ (forall s, In s l1 -> N.testbit occ s = false)
    /\ N.testbit (g_chk p (fst e)) y = true.
Proof.
  rewrite N.lor_spec. intros H. apply orb_true_iff in H.
  assert (Hgen : forall e, In e dir_tab -> N.testbit (g_kray p e) y = true -> N.testbit (g_att p (fst e)) y = true ->
            exists e l1 l2, In e dir_tab /\ ray_of k (fst e) = l1 ++ y :: l2 /\ (forall s, In s l1 -> N.testbit occ s = false)
              /\ N.testbit (g_chk p (fst e)) y = true).
  { intros e He Hk Ha. pose proof (att_chk _ _ Ha) as Hc. destruct (kray_first e y He Hk Hc) as (l1 & l2 & El & H1).
    exists e, l1, l2. split; [exact He|split; [exact El|split; [exact H1|exact Hc]]]. }
  destruct H as [H|H].
  - assert (Hr : N.testbit (g_brays p) y = true).
    { unfold g_batt in H. rewrite !N.land_spec in H. apply andb_true_iff in H. destruct H as [H _]. apply andb_true_iff in H. exact (proj1 H). }
    unfold g_brays in Hr. rewrite !N.lor_spec in Hr. apply orb_true_iff in Hr. destruct Hr as [Hr|Hr]; [apply orb_true_iff in Hr; destruct Hr as [Hr|Hr]; [apply orb_true_iff in Hr; destruct Hr as [Hr|Hr]|]|].
    + apply (Hgen e_ne); [unfold dir_tab; cbn [In]; tauto|exact Hr|exact H].
    + apply (Hgen e_sw); [unfold dir_tab; cbn [In]; tauto|exact Hr|exact H].
    + apply (Hgen e_nw); [unfold dir_tab; cbn [In]; tauto|exact Hr|exact H].
    + apply (Hgen e_se); [unfold dir_tab; cbn [In]; tauto|exact Hr|exact H].
  - assert (Hr : N.testbit (g_rrays p) y = true).
    { unfold g_ratt in H. rewrite !N.land_spec in H. apply andb_true_iff in H. destruct H as [H _]. apply andb_true_iff in H. exact (proj1 H). }
    unfold g_rrays in Hr. rewrite !N.lor_spec in Hr. apply orb_true_iff in Hr. destruct Hr as [Hr|Hr]; [apply orb_true_iff in Hr; destruct Hr as [Hr|Hr]; [apply orb_true_iff in Hr; destruct Hr as [Hr|Hr]|]|].
    + apply (Hgen e_n); [unfold dir_tab; cbn [In]; tauto|exact Hr|exact H].
    + apply (Hgen e_s); [unfold dir_tab; cbn [In]; tauto|exact Hr|exact H].
    + apply (Hgen e_e); [unfold dir_tab; cbn [In]; tauto|exact Hr|exact H].
    + apply (Hgen e_w); [unfold dir_tab; cbn [In]; tauto|exact Hr|exact H].
Qed.
Lemma all_split y : N.testbit (g_all p) y = true ->
  N.testbit (N.lor (g_patt p) (g_natt p)) y = true \/ N.testbit (N.lor (g_batt p) (g_ratt p)) y = true.
Proof.
  unfold g_all. rewrite !N.lor_spec. intros H.
  destruct (N.testbit (g_patt p) y), (N.testbit (g_natt p) y), (N.testbit (g_batt p) y), (N.testbit (g_ratt p) y); cbn in *; try discriminate; tauto.
Qed.
Lemma all_theirs y : N.testbit (g_all p) y = true -> N.testbit occ y = true.
Proof.
  intros H. assert (Ht : tb p y = true).
  { unfold tb, is_set. unfold g_all, g_patt, g_natt, g_batt, g_ratt in H. rewrite !N.lor_spec, !N.land_spec in H.
    destruct (N.testbit (c_them p) y); [reflexivity|]. rewrite ?andb_false_r, ?andb_false_l in H. cbn in H. exact H. }
  unfold occupied. rewrite N.lor_spec. unfold tb, is_set in Ht. rewrite Ht. apply orb_true_r.
Qed.
End PinStruct.

(* ------------------------------------------------------------------ the converse *)
Section Conv.
Variables (u : bool) (p : Position) (m : Mv) (kq : N).
Hypothesis I : Inv0 p.
Hypothesis S : sane p m kq.
Hypothesis NVK : m_to m <> tksq p.
Hypothesis Hnk : kq <> KING.
Hypothesis Hnep : mv_is_ep p m = false.
Local Notation a := (m_from m).
Local Notation b := (m_to m).
Local Notation k := (g_k p).
Local Notation occ := (occupied p).
Local Notation Q := (mv_boards u p m).
Local Notation gi := (gen_info p).
Hypothesis Hsafe : in_check_them (makemove u p m) = false.

Let G : Good p := i0_good p I.

Lemma ck_lt : k < 64. Proof. exact (gk_lt p G). Qed.
Lemma ca_lt : a < 64. Proof. exact (a_lt p m kq S). Qed.
Lemma cb_lt : b < 64. Proof. exact (b_lt p m kq S). Qed.
Lemma ca_ours : ub p a = true /\ tb p a = false. Proof. exact (a_ours p m kq S). Qed.
Lemma cb_ne_a : b <> a. Proof. intros E. apply (sn_ne _ _ _ S). symmetry. exact E. Qed.

Lemma safe_tests : is_sq_attacked Q k false = false.
Proof. rewrite <- (ka_is_k p m kq Hnk), <- (nc_transfer_sq u p m kq S I NVK). exact Hsafe. Qed.

Lemma safe_five :
  is_set (pawns_bb false (N.land (pawns Q) (c_them Q))) k = false
  /\ is_occ (N.land (N.land (knights_bb (bit k)) (knights Q)) (c_them Q)) = false
  /\ existsb (fun d => first_hit (occupied Q) (N.land (c_them Q) (N.lor (bishops Q) (queens Q))) (ray_of k d)) bishop_dirs = false
  /\ existsb (fun d => first_hit (occupied Q) (N.land (c_them Q) (N.lor (rooks Q) (queens Q))) (ray_of k d)) rook_dirs = false.
Proof.
  pose proof safe_tests as H. unfold is_sq_attacked in H. cbn [get_side] in H. apply if_chain_last in H.
  destruct H as (H1 & H2 & H3 & H4 & _).
  unfold batt, bishop_walk in H3. unfold ratt, rook_walk in H4.
  replace (k <? 64) with true in H3, H4 by (symmetry; apply N.ltb_lt; exact ck_lt).
  rewrite walk_dirs_query in H3 by (apply LegalEp.them_sub). rewrite walk_dirs_query in H4 by (apply LegalEp.them_sub).
  split; [exact H1|split; [exact H2|split; [exact H3|exact H4]]].
Qed.

Lemma safe_slider d : In d all_dirs -> first_hit (occupied Q) (chkQ u p m d) (ray_of k d) = false.
Proof.
  intros Hd. destruct safe_five as (_ & _ & H3 & H4). unfold chkQ.
  destruct (dir_class d Hd) as [(Ed & Hb)|(Ed & Hr)]; rewrite Ed.
  - exact (LegalEp.existsb_false' _ _ H3 d Hb).
  - exact (LegalEp.existsb_false' _ _ H4 d Hr).
Qed.

Lemma kbb_bit s : N.testbit (g_kbb p) s = true -> s = k.
Proof.
  unfold g_kbb. rewrite N.land_comm. destruct (g_bb p G) as (B1 & _).
  rewrite (single_bit_test _ s (land_lt_r _ _ B1) (g_king p G)). intros H. apply N.eqb_eq in H. exact H.
Qed.

(* a pawn attacking our king is still there afterwards, unless it was captured *)
Lemma safe_pawn y : N.testbit (g_patt p) y = true -> y = b.
Proof.
  intros Hy. destruct (N.eq_dec y b) as [E|Hne]; [exact E|exfalso].
  destruct safe_five as (H1 & _). unfold is_set in H1. rewrite testbit_pawns_them in H1.
  pose proof ck_lt as Hk64. replace (k <? 64) with true in H1 by (symmetry; apply N.ltb_lt; exact Hk64). cbn [andb] in H1.
  apply orb_false_iff in H1. destruct H1 as [H7 H9].
  unfold g_patt in Hy. rewrite !N.land_spec, N.lor_spec in Hy.
  apply andb_true_iff in Hy. destruct Hy as [Hy Hp]. apply andb_true_iff in Hy. destruct Hy as [Hgeo Ht].
  assert (HyQ : N.testbit (N.land (pawns Q) (c_them Q)) y = true).
  { pose proof (F_them u p m kq S Hnep 0 y ltac:(lia)) as F. cbn [get_piece] in F. rewrite F, N.land_spec, Hp, Ht.
    apply N.eqb_neq in Hne. rewrite Hne. reflexivity. }
  apply orb_true_iff in Hgeo. destruct Hgeo as [Hg|Hg].
  - rewrite testbit_north_east in Hg. repeat (apply andb_true_iff in Hg; destruct Hg as [Hg ?]).
    match goal with X : N.testbit (g_kbb p) _ = true |- _ => apply kbb_bit in X; rename X into Ek end.
    match goal with X : (9 <=? y) = true |- _ => apply N.leb_le in X end.
    match goal with X : negb (y mod 8 =? 0) = true |- _ => apply negb_true_iff, N.eqb_neq in X end.
    assert (E : y = k + 9) by lia. rewrite E in HyQ. rewrite HyQ, andb_true_r in H9. apply negb_false_iff, N.eqb_eq in H9. lia.
  - rewrite testbit_north_west in Hg. repeat (apply andb_true_iff in Hg; destruct Hg as [Hg ?]).
    match goal with X : N.testbit (g_kbb p) _ = true |- _ => apply kbb_bit in X; rename X into Ek end.
    match goal with X : (7 <=? y) = true |- _ => apply N.leb_le in X end.
    match goal with X : negb (y mod 8 =? 7) = true |- _ => apply negb_true_iff, N.eqb_neq in X end.
    assert (E : y = k + 7) by lia. rewrite E in HyQ. rewrite HyQ, andb_true_r in H7. apply negb_false_iff, N.eqb_eq in H7. lia.
Qed.

Lemma safe_knight y : N.testbit (g_natt p) y = true -> y = b.
Proof.
  intros Hy. destruct (N.eq_dec y b) as [E|Hne]; [exact E|exfalso].
  destruct safe_five as (_ & H2 & _).
  unfold g_natt in Hy. rewrite <- N.land_assoc, N.land_spec in Hy. apply andb_true_iff in Hy. destruct Hy as [Hy1 Hy2].
  assert (HyQ : N.testbit (N.land (knights Q) (c_them Q)) y = true).
  { pose proof (F_them u p m kq S Hnep 1 y ltac:(lia)) as F. cbn [get_piece] in F. rewrite F, Hy2.
    apply N.eqb_neq in Hne. rewrite Hne. reflexivity. }
  rewrite (is_occ_bit _ y) in H2; [discriminate|]. rewrite <- N.land_assoc, N.land_spec, Hy1, HyQ. reflexivity.
Qed.

Lemma safe_leaper y : N.testbit (N.lor (g_patt p) (g_natt p)) y = true -> y = b.
Proof. rewrite N.lor_spec. intros H. apply orb_true_iff in H. destruct H as [H|H]; [exact (safe_pawn y H)|exact (safe_knight y H)]. Qed.

(* the core: an enemy slider x of the ray's type, with only the mover (possibly) between it and the king, must be blocked or taken *)
Lemma ray_blocked d l1 x l2 : In d all_dirs -> ray_of k d = l1 ++ x :: l2 ->
  (forall s, In s l1 -> s = a \/ N.testbit occ s = false) -> N.testbit (g_chk p d) x = true -> In b l1 \/ b = x.
Proof.
  intros Hd El Hv HX.
  destruct (in_dec N.eq_dec b l1) as [Hin|Hnin]; [left; exact Hin|].
  destruct (N.eq_dec b x) as [E|Hne]; [right; exact E|exfalso].
  destruct (chk_sub p d x HX) as (Hxt & Hxo).
  assert (Hxa : x <> a) by (intros E; rewrite E, (proj2 ca_ours) in Hxt; discriminate).
  pose proof (safe_slider d Hd) as Hf. rewrite El, first_hit_intro in Hf.
  - rewrite (F_chk u p m kq S NVK Hnk Hnep), HX in Hf. destruct (N.eqb_spec x b) as [E|_]; [apply Hne; symmetry; exact E|discriminate].
  - intros s Hs. rewrite (F_occ u p m kq S Hnep).
    destruct (N.eqb_spec s b) as [E|_]; [exfalso; apply Hnin; rewrite <- E; exact Hs|]. cbn [orb].
    destruct (Hv s Hs) as [E|E]; [rewrite E, N.eqb_refl; apply andb_false_r|rewrite E; reflexivity].
  - rewrite (F_occ u p m kq S Hnep), Hxo. destruct (N.eqb_spec x a) as [E|_]; [contradiction|]. apply orb_true_r.
Qed.

(* V2 *)
Theorem conv_pin e l1 l2a x l2b : In e dir_tab -> ray_of k (fst e) = l1 ++ a :: l2a ++ x :: l2b ->
  (forall s, In s l1 -> N.testbit occ s = false) -> (forall s, In s l2a -> N.testbit occ s = false) ->
  N.testbit (g_chk p (fst e)) x = true -> In b l1 \/ In b l2a \/ b = x.
Proof.
  intros He El H1 H2 HX.
  assert (El' : ray_of k (fst e) = (l1 ++ a :: l2a) ++ x :: l2b) by (rewrite <- app_assoc; exact El).
  destruct (ray_blocked (fst e) (l1 ++ a :: l2a) x l2b (dir_tab_dirs e He) El') as [H|H].
  - intros s Hs. destruct (in_mid _ _ _ _ Hs) as [H|[H|H]]; [right; exact (H1 s H)|left; exact H|right; exact (H2 s H)].
  - exact HX.
  - destruct (in_mid _ _ _ _ H) as [H'|[H'|H']]; [left; exact H'|exfalso; exact (cb_ne_a H')|right; left; exact H'].
  - right. right. exact H.
Qed.

(* a bit of a pin set at the mover's square: the whole picture, with the target on the line *)
Lemma pin_line ds X : (forall e, In e ds -> In e dir_tab /\ X = g_chk p (fst e)) -> N.testbit (fst (pins p ds X)) a = true ->
  exists e l1 l2a x l2b, In e ds /\ ray_of k (fst e) = l1 ++ a :: l2a ++ x :: l2b
    /\ (forall s, In s l1 -> N.testbit occ s = false) /\ (forall s, In s l2a -> N.testbit occ s = false)
    /\ N.testbit X x = true /\ N.testbit occ x = true /\ (In b l1 \/ In b l2a \/ b = x).
Proof.
  intros Hds H. destruct (pins_struct p G ds X a Hds H) as (e & l1 & l2a & x & l2b & Hin & El & H1 & H2 & _ & HX & Hox).
  exists e, l1, l2a, x, l2b. destruct (Hds e Hin) as (He & EX).
  split; [exact Hin|split; [exact El|split; [exact H1|split; [exact H2|split; [exact HX|split; [exact Hox|]]]]]].
  apply (conv_pin e l1 l2a x l2b He El H1 H2). rewrite <- EX. exact HX.
Qed.
Lemma pin_on_ray ds X : (forall e, In e ds -> In e dir_tab /\ X = g_chk p (fst e)) -> N.testbit (fst (pins p ds X)) a = true ->
  exists e, In e ds /\ In a (ray_of k (fst e)) /\ In b (ray_of k (fst e)).
Proof.
  intros Hds H. destruct (pin_line ds X Hds H) as (e & l1 & l2a & x & l2b & Hin & El & _ & _ & _ & _ & Hb).
  exists e. split; [exact Hin|]. rewrite El. split; [apply in_or_app; right; left; reflexivity|].
  destruct Hb as [Hb|[Hb|Hb]].
  - apply in_or_app. left. exact Hb.
  - apply in_or_app. right. right. apply in_or_app. left. exact Hb.
  - apply in_or_app. right. right. apply in_or_app. right. left. symmetry. exact Hb.
Qed.
Lemma pin_on_line ds X : (forall e, In e ds -> In e dir_tab /\ X = g_chk p (fst e)) -> N.testbit (fst (pins p ds X)) a = true ->
  exists e, In e ds /\ (In b (ray_of a (fst e)) \/ In b (ray_of a (negd (fst e)))).
Proof.
  intros Hds H. destruct (pin_line ds X Hds H) as (e & l1 & l2a & x & l2b & Hin & El & _ & _ & _ & _ & Hb).
  exists e. split; [exact Hin|]. destruct (Hds e Hin) as (He & _). pose proof (dir_tab_dirs e He) as Hd.
  destruct Hb as [Hb|Hb].
  - right. destruct (back_ray k (fst e) l1 a _ ck_lt Hd El) as (rest & Eb). rewrite Eb. apply in_or_app. left.
    apply (proj1 (in_rev l1 b)). exact Hb.
  - left. rewrite (fwd_ray k (fst e) l1 a _ ck_lt Hd El). apply in_or_app.
    destruct Hb as [Hb|Hb]; [left; exact Hb|right; left; symmetry; exact Hb].
Qed.

(* ------------------------------------------------------------------ V4: the generator's vocabulary *)
Theorem conv_bpinned : N.testbit (gi_bpinned gi) a = true -> N.testbit (gi_bxrays gi) b = true.
Proof.
  destruct (gi_pins p) as (E1 & E2 & _). rewrite E1, E2. unfold pinsB. fold dsB. intros H.
  destruct (pin_line dsB (g_bq p) (entB p) H) as (e & l1 & l2a & x & l2b & Hin & El & H1 & H2 & HX & Hox & Hb).
  rewrite N.lor_spec.
  rewrite (LegalEp.pins_complete_x p ck_lt (g_bq p) dsB e l1 a l2a x l2b (entB p) Hin El H1 H2 (proj1 ca_ours) HX Hox (ours_occ p) b); [reflexivity|tauto].
Qed.

Theorem conv_rpinned : N.testbit (gi_rpinned gi) a = true -> N.testbit (gi_rxrays gi) b = true.
Proof.
  destruct (gi_pins p) as (_ & _ & _ & E4 & E5 & _). rewrite E4, E5. unfold pinsV, pinsH. fold dsV. fold dsH.
  rewrite !N.lor_spec. intros H. apply orb_true_iff in H. destruct H as [H|H].
  - destruct (pin_line dsV (g_rq p) (entV p) H) as (e & l1 & l2a & x & l2b & Hin & El & H1 & H2 & HX & Hox & Hb).
    rewrite (LegalEp.pins_complete_x p ck_lt (g_rq p) dsV e l1 a l2a x l2b (entV p) Hin El H1 H2 (proj1 ca_ours) HX Hox (ours_occ p) b); [apply orb_true_r|tauto].
  - destruct (pin_line dsH (g_rq p) (entH p) H) as (e & l1 & l2a & x & l2b & Hin & El & H1 & H2 & HX & Hox & Hb).
    rewrite (LegalEp.pins_complete_x p ck_lt (g_rq p) dsH e l1 a l2a x l2b (entH p) Hin El H1 H2 (proj1 ca_ours) HX Hox (ours_occ p) b); [reflexivity|tauto].
Qed.

(* the three groups of the pin sets *)
Lemma pinned_cases : N.testbit (gi_pinned gi) a = true ->
  N.testbit (fst (pins p dsB (g_bq p))) a = true \/ N.testbit (fst (pins p dsV (g_rq p))) a = true \/ N.testbit (fst (pins p dsH (g_rq p))) a = true.
Proof.
  destruct (gi_pins p) as (_ & _ & _ & _ & _ & E6). rewrite E6. unfold pinsB, pinsV, pinsH. fold dsB. fold dsV. fold dsH.
  rewrite !N.lor_spec. intros H. apply orb_true_iff in H. destruct H as [H|H]; [left; exact H|].
  apply orb_true_iff in H. destruct H as [H|H]; [right; left; exact H|right; right; exact H].
Qed.
Lemma rpinned_cases : N.testbit (gi_rpinned gi) a = true ->
  N.testbit (fst (pins p dsV (g_rq p))) a = true \/ N.testbit (fst (pins p dsH (g_rq p))) a = true.
Proof.
  destruct (gi_pins p) as (_ & _ & _ & E4 & _). rewrite E4. unfold pinsV, pinsH. fold dsV. fold dsH.
  rewrite !N.lor_spec. intros H. apply orb_true_iff in H. exact H.
Qed.

Theorem conv_knight : N.testbit (knights_bb (bit a)) b = true -> N.testbit (gi_pinned gi) a = false.
Proof.
  intros Hn. destruct (N.testbit (gi_pinned gi) a) eqn:Hp; [exfalso|reflexivity].
  assert (Hgen : forall ds X, (forall e, In e ds -> In e dir_tab /\ X = g_chk p (fst e)) -> N.testbit (fst (pins p ds X)) a = true -> False).
  { intros ds X Hds H. destruct (pin_on_ray ds X Hds H) as (e & Hin & Ha & Hb).
    rewrite (ray_no_knight k (fst e) a b ck_lt (dir_tab_dirs e (proj1 (Hds e Hin))) Ha Hb) in Hn. discriminate. }
  destruct (pinned_cases Hp) as [H|[H|H]].
  - exact (Hgen dsB (g_bq p) (entB p) H).
  - exact (Hgen dsV (g_rq p) (entV p) H).
  - exact (Hgen dsH (g_rq p) (entH p) H).
Qed.

(* a man pinned on a file or rank cannot move diagonally, and conversely *)
Lemma batt_ray : N.testbit (batt a occ) b = true -> exists d2, In d2 bishop_dirs /\ In b (ray_of a d2).
Proof.
  unfold batt, bishop_walk. replace (a <? 64) with true by (symmetry; apply N.ltb_lt; exact ca_lt). intros H.
  destruct (walk_dirs_which _ _ _ _ H) as (d2 & Hd2 & Hw). exists d2. split; [exact Hd2|].
  exact (walk_list_in _ _ (RaySym.ray_lt a d2) b Hw).
Qed.
Lemma ratt_ray : N.testbit (ratt a occ) b = true -> exists d2, In d2 rook_dirs /\ In b (ray_of a d2).
Proof.
  unfold ratt, rook_walk. replace (a <? 64) with true by (symmetry; apply N.ltb_lt; exact ca_lt). intros H.
  destruct (walk_dirs_which _ _ _ _ H) as (d2 & Hd2 & Hw). exists d2. split; [exact Hd2|].
  exact (walk_list_in _ _ (RaySym.ray_lt a d2) b Hw).
Qed.

Theorem conv_diag : N.testbit (batt a occ) b = true -> N.testbit (gi_pinned gi) a = true -> N.testbit (gi_bpinned gi) a = true.
Proof.
  intros Hb Hp. destruct (batt_ray Hb) as (d2 & Hd2 & Hin2).
  assert (Hgen : forall ds, (forall e, In e ds -> In e dir_tab /\ g_rq p = g_chk p (fst e)) -> (forall e, In e ds -> In (fst e) rook_dirs) ->
            N.testbit (fst (pins p ds (g_rq p))) a = true -> False).
  { intros ds Hds Hcl H. destruct (pin_on_line ds (g_rq p) Hds H) as (e & Hin & Hl). pose proof (Hcl e Hin) as Hr.
    destruct Hl as [Hl|Hl].
    - pose proof (rays_disjoint a d2 (fst e) b ca_lt (bishop_in_all d2 Hd2) (rook_in_all _ Hr) Hin2 Hl) as E. rewrite E in Hd2. exact (class_clash _ Hd2 Hr).
    - pose proof (rays_disjoint a d2 (negd (fst e)) b ca_lt (bishop_in_all d2 Hd2) (rook_in_all _ (negd_rook _ Hr)) Hin2 Hl) as E.
      rewrite E in Hd2. exact (class_clash _ Hd2 (negd_rook _ Hr)). }
  destruct (pinned_cases Hp) as [H|[H|H]].
  - destruct (gi_pins p) as (E1 & _). rewrite E1. exact H.
  - exfalso. exact (Hgen dsV (entV p) dirV H).
  - exfalso. exact (Hgen dsH (entH p) (fun e He => proj1 (dirH e He)) H).
Qed.

Theorem conv_orth : N.testbit (ratt a occ) b = true -> N.testbit (gi_pinned gi) a = true -> N.testbit (gi_rpinned gi) a = true.
Proof.
  intros Hb Hp. destruct (ratt_ray Hb) as (d2 & Hd2 & Hin2).
  destruct (pinned_cases Hp) as [H|H].
  - exfalso. destruct (pin_on_line dsB (g_bq p) (entB p) H) as (e & Hin & Hl). pose proof (dirB e Hin) as Hr.
    destruct Hl as [Hl|Hl].
    + pose proof (rays_disjoint a d2 (fst e) b ca_lt (rook_in_all d2 Hd2) (bishop_in_all _ Hr) Hin2 Hl) as E. rewrite E in Hd2. exact (class_clash _ Hr Hd2).
    + pose proof (rays_disjoint a d2 (negd (fst e)) b ca_lt (rook_in_all d2 Hd2) (bishop_in_all _ (negd_bishop _ Hr)) Hin2 Hl) as E.
      rewrite E in Hd2. exact (class_clash _ (negd_bishop _ Hr) Hd2).
  - destruct (gi_pins p) as (_ & _ & _ & E4 & _). rewrite E4. unfold pinsV, pinsH. fold dsV. fold dsH. rewrite N.lor_spec.
    apply orb_true_iff. exact H.
Qed.

(* pawn pushes and pawn captures *)
Theorem conv_push : b = a + 8 \/ b = a + 16 -> N.testbit (gi_hpinned gi) a = false /\ N.testbit (gi_bpinned gi) a = false.
Proof.
  intros Hb.
  assert (Hgen : forall ds X, (forall e, In e ds -> In e dir_tab /\ X = g_chk p (fst e)) -> (forall e, In e ds -> In (fst e) nonvert) ->
            N.testbit (fst (pins p ds X)) a = true -> False).
  { intros ds X Hds Hcl H. destruct (pin_on_ray ds X Hds H) as (e & Hin & Ha & Hbr).
    destruct (ray_no_up k (fst e) a ck_lt (Hcl e Hin) Ha) as (N8 & N16).
    destruct Hb as [E|E]; rewrite E in Hbr; [exact (N8 Hbr)|exact (N16 Hbr)]. }
  destruct (gi_pins p) as (E1 & _ & E3 & _). rewrite E1, E3. unfold pinsB, pinsH. fold dsB. fold dsH. split.
  - destruct (N.testbit (fst (pins p dsH (g_rq p))) a) eqn:H; [exfalso|reflexivity].
    exact (Hgen dsH (g_rq p) (entH p) (fun e He => proj2 (dirH e He)) H).
  - destruct (N.testbit (fst (pins p dsB (g_bq p))) a) eqn:H; [exfalso|reflexivity].
    exact (Hgen dsB (g_bq p) (entB p) (fun e He => bishop_nonvert _ (dirB e He)) H).
Qed.

Theorem conv_pcap : b = a + 9 \/ b = a + 7 -> N.testbit (gi_rpinned gi) a = false.
Proof.
  intros Hb. destruct (N.testbit (gi_rpinned gi) a) eqn:Hp; [exfalso|reflexivity].
  assert (Hgen : forall ds, (forall e, In e ds -> In e dir_tab /\ g_rq p = g_chk p (fst e)) -> (forall e, In e ds -> In (fst e) rook_dirs) ->
            N.testbit (fst (pins p ds (g_rq p))) a = true -> False).
  { intros ds Hds Hcl H. destruct (pin_on_ray ds (g_rq p) Hds H) as (e & Hin & Ha & Hbr).
    destruct (ray_no_cap k (fst e) a ck_lt (Hcl e Hin) Ha) as (N7 & N9).
    destruct Hb as [E|E]; rewrite E in Hbr; [exact (N9 Hbr)|exact (N7 Hbr)]. }
  destruct (rpinned_cases Hp) as [H|H].
  - exact (Hgen dsV (entV p) dirV H).
  - exact (Hgen dsH (entH p) (fun e He => proj1 (dirH e He)) H).
Qed.

(* ------------------------------------------------------------------ V1: the target lies in `allowed` *)
(* a checker is captured, or it is a slider and the target stands between it and the king *)
Lemma checker_cases y : N.testbit (g_all p) y = true ->
  y = b \/ exists e l1 l2, In e dir_tab /\ ray_of k (fst e) = l1 ++ y :: l2 /\ (forall s, In s l1 -> N.testbit occ s = false)
             /\ N.testbit (g_chk p (fst e)) y = true /\ In b l1.
Proof.
  intros Hy. destruct (all_split p y Hy) as [H|H]; [left; exact (safe_leaper y H)|].
  destruct (slider_struct p G y H) as (e & l1 & l2 & He & El & H1 & HX).
  destruct (ray_blocked (fst e) l1 y l2 (dir_tab_dirs e He) El (fun s Hs => or_intror (H1 s Hs)) HX) as [Hb|Hb].
  - right. exists e, l1, l2. split; [exact He|split; [exact El|split; [exact H1|split; [exact HX|exact Hb]]]].
  - left. symmetry. exact Hb.
Qed.

(* a double check cannot be parried by a move of another man *)
Lemma no_double : (1 <? popcount (g_all p)) = false.
Proof.
  destruct (1 <? popcount (g_all p)) eqn:Ep; [exfalso|reflexivity].
  destruct (popcount_gt1_two _ Ep) as (y1 & y2 & Hne & Hy1 & Hy2).
  pose proof (all_theirs p y1 Hy1) as O1. pose proof (all_theirs p y2 Hy2) as O2.
  destruct (checker_cases y1 Hy1) as [E1|(e1 & l1 & l2 & He1 & El1 & V1 & X1 & B1)];
    destruct (checker_cases y2 Hy2) as [E2|(e2 & l1' & l2' & He2 & El2 & V2 & X2 & B2)].
  - apply Hne. rewrite E1, E2. reflexivity.
  - rewrite <- E1 in B2. rewrite (V2 y1 B2) in O1. discriminate.
  - rewrite <- E2 in B1. rewrite (V1 y2 B1) in O2. discriminate.
  - assert (Ed : fst e1 = fst e2).
    { apply (rays_disjoint k (fst e1) (fst e2) b ck_lt (dir_tab_dirs e1 He1) (dir_tab_dirs e2 He2)).
      - rewrite El1. apply in_or_app. left. exact B1.
      - rewrite El2. apply in_or_app. left. exact B2. }
    rewrite Ed, El2 in El1.
    destruct (first_occ_unique occ l1' y2 l2' l1 y1 l2 El1 V2 V1 O2 O1) as (E & _). apply Hne. symmetry. exact E.
Qed.

Theorem conv_allowed : N.testbit (gi_allowed gi) b = true.
Proof.
  pose proof no_double as Ep.
  destruct (existsb (fun e => is_occ (N.land (g_kray p e) (g_att p (fst e)))) chain_order) eqn:Ex.
  - (* a slider check along e: allowed is the ray up to the checker *)
    apply existsb_exists in Ex. destruct Ex as (e & Hin & Ht). apply chain_order_tab in Hin.
    destruct (is_occ_exists _ Ht) as (z & Hz). rewrite N.land_spec in Hz. apply andb_true_iff in Hz. destruct Hz as [Hz1 Hz2].
    pose proof (att_chk p _ _ Hz2) as HX.
    destruct (kray_first p G e z Hin Hz1 HX) as (l1 & l2 & El & H1).
    destruct (chk_sub p (fst e) z HX) as (_ & Hzo).
    assert (Hf : first_hit occ (g_chk p (fst e)) (ray_of k (fst e)) = true) by (rewrite El, (first_hit_intro occ _ l1 z l2 H1 Hzo); exact HX).
    rewrite (allowed_is_ray p G e Hin Ep Hf), El.
    assert (Hl64 : forall y, In y (l1 ++ z :: l2) -> y < 64) by (rewrite <- El; exact (RaySym.ray_lt k (fst e))).
    destruct (ray_blocked (fst e) l1 z l2 (dir_tab_dirs e Hin) El (fun s Hs => or_intror (H1 s Hs)) HX) as [Hb|Hb].
    + destruct (in_split b l1 Hb) as (m1 & m2 & Em). revert Hl64. rewrite Em, <- app_assoc. cbn [app]. intros Hl64.
      apply walk_list_reach; [exact Hl64|]. intros y Hy. apply H1. rewrite Em. apply in_or_app. left. exact Hy.
    + rewrite Hb. apply walk_list_reach; [exact Hl64|exact H1].
  - (* no slider check *)
    rewrite allowed_chain, Ep, chain_none.
    + destruct (is_occ (g_all p)) eqn:Eo.
      * (* a pawn or knight gives check: it is captured *)
        destruct (is_occ_exists _ Eo) as (y & Hy).
        destruct (checker_cases y Hy) as [E|(e & l1 & l2 & He & El & V1 & HX & _)]; [rewrite <- E; exact Hy|exfalso].
        destruct (chk_sub p (fst e) y HX) as (_ & Hyo).
        assert (Hf : first_hit occ (g_chk p (fst e)) (ray_of k (fst e)) = true) by (rewrite El, (first_hit_intro occ _ l1 y l2 V1 Hyo); exact HX).
        destruct (checker_in_att p G e He Hf) as (l1' & x & l2' & _ & _ & _ & _ & Hkx & Hax & _).
        pose proof (LegalEp.existsb_false' _ _ Ex e (proj2 (chain_order_tab e) He)) as Hn. cbv beta in Hn.
        rewrite (is_occ_bit _ x) in Hn; [discriminate|]. rewrite N.land_spec, Hkx, Hax. reflexivity.
      * (* no check at all *)
        rewrite testbit_bnot. pose proof (b_not_ours p m kq S) as Hu. unfold ub, is_set in Hu. rewrite Hu.
        replace (b <? 64) with true by (symmetry; apply N.ltb_lt; exact cb_lt). reflexivity.
    + intros r a' Hin. apply in_map_iff in Hin. destruct Hin as (e' & Ee & He'). unfold g_entry in Ee. injection Ee as <- <-.
      exact (LegalEp.existsb_false' _ _ Ex e' He').
Qed.
End Conv.

About pins_struct.
About conv_pin.
About conv_allowed.
About conv_bpinned. About conv_rpinned. About conv_knight. About conv_diag. About conv_orth. About conv_push. About conv_pcap.
Print Assumptions pins_struct.
Print Assumptions conv_pin.
Print Assumptions conv_allowed.
Print Assumptions conv_bpinned.
Print Assumptions conv_rpinned.
Print Assumptions conv_knight.
Print Assumptions conv_diag.
Print Assumptions conv_orth.
Print Assumptions conv_push.
Print Assumptions conv_pcap.
