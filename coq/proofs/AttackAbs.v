(* C08 (attack queries), part 2: with White to move (stored frame = absolute frame) the engine's attack test is the
   rules' `attacked` on the abstract board. *)
From Coq Require Import NArith ZArith List Bool Lia ZifyN ZifyBool.
From Rawr Require Import Consts Bits Magic Position MoveGen MakeMove MakeStages Rules Abs BitsFacts FlipFacts AbsFacts
                         LsbFacts MakeFacts MakeAbs KeyAbs AttackFacts.
Import ListNotations.
Local Open Scope N_scope.
Ltac Zify.zify_post_hook ::= Z.div_mod_to_equations.

Lemma at_zsq p f r : at_ (board_of p) f r = if on_board f r then man_at p (zsq f r) else None.
Proof.
  unfold at_. change (onb f r) with (on_board f r). destruct (on_board f r) eqn:Hb; [|reflexivity].
  assert (Hlt : zsq f r < 64) by (apply zsq_lt; exact Hb).
  unfold on_board in Hb. repeat (apply andb_true_iff in Hb; destruct Hb as [Hb ?]).
  unfold idx. rewrite nth_board by (unfold zsq in Hlt; lia). f_equal. unfold zsq. lia.
Qed.

Definition pd (us : bool) : Z := if us then (-1)%Z else 1%Z.
Lemma pawn_offs_form (us : bool) : pawn_offs (negb us) = [(1, pd us); (-1, pd us)]%Z.
Proof. destruct us; reflexivity. Qed.
Lemma pdir_form (us : bool) : match (if us then White else Black) with White => (-1)%Z | Black => 1%Z end = pd us.
Proof. destruct us; reflexivity. Qed.

Section WhiteFrame.
Variables (p : Position) (us : bool).
Hypothesis Ht : turn p = false.
Hypothesis HW : WF p.
Let c := if us then White else Black.
Let sd := get_side p us.
Let sbit (s : N) : bool := if us then ub p s else tb p s.

Lemma sd_bit s : N.testbit sd s = sbit s.
Proof. unfold sd, sbit, get_side, ub, tb, is_set. destruct us; reflexivity. Qed.

(* one kind of man of the attacking side on a square of the board *)
Lemma is_man_bits k s : k <= 5 -> s < 64 -> is_man c (kind_of_N k) (man_at p s) = sbit s && pb p k s.
Proof.
  intros Hk Hs. assert (Hr : rel_sq p s = s) by (unfold rel_sq; rewrite Ht; reflexivity).
  destruct (HW s Hs) as [He | (t & j & Hh)].
  - rewrite (man_at_empty p s) by (rewrite Hr; exact He). destruct He as (Hu & Hb & Hp).
    rewrite (Hp k Hk), andb_false_r. reflexivity.
  - rewrite (man_at_holds p s t j) by (rewrite Hr; exact Hh). destruct Hh as (Hj & Hu & Hb & Hp).
    rewrite Ht. cbn [xorb is_man]. rewrite (Hp k Hk). unfold sbit, c. rewrite Hu, Hb.
    destruct us, t; cbn [negb colour_of_turn colour_eqb andb]; try reflexivity;
    kinds k Hk; kinds j Hj; reflexivity.
Qed.

Lemma at_off_man x k sq d : k <= 5 -> (forall s, N.testbit x s = sbit s && pb p k s) ->
  at_off x sq d = is_man c (kind_of_N k) (at_ (board_of p) (zfile sq + fst d) (zrank sq + snd d)).
Proof.
  intros Hk Hx. unfold at_off. cbv zeta. rewrite at_zsq.
  destruct (on_board (zfile sq + fst d) (zrank sq + snd d)) eqn:Hb; cbn [andb]; [|reflexivity].
  rewrite Hx, is_man_bits by (exact Hk || (apply zsq_lt; exact Hb)). reflexivity.
Qed.

Lemma land_side_bits k s : k <= 5 -> N.testbit (N.land (get_piece p k) sd) s = sbit s && pb p k s.
Proof. intros Hk. rewrite N.land_spec, sd_bit. unfold pb, is_set. apply andb_comm. Qed.

(* occupied <=> some man stands there *)
Lemma occupied_man s : s < 64 -> N.testbit (occupied p) s = match man_at p s with Some _ => true | None => false end.
Proof.
  intros Hs. assert (Hr : rel_sq p s = s) by (unfold rel_sq; rewrite Ht; reflexivity).
  unfold occupied. rewrite N.lor_spec. change (ub p s || tb p s = match man_at p s with Some _ => true | None => false end).
  destruct (HW s Hs) as [He | (t & j & Hh)].
  - rewrite (man_at_empty p s) by (rewrite Hr; exact He). destruct He as (Hu & Hb & _). rewrite Hu, Hb. reflexivity.
  - rewrite (man_at_holds p s t j) by (rewrite Hr; exact Hh). destruct Hh as (_ & Hu & Hb & _). rewrite Hu, Hb. destruct t; reflexivity.
Qed.

(* the first blocker of a ray: bitboard walk vs board walk *)
Lemma ray_first k1 k2 x : k1 <= 5 -> k2 <= 5 ->
  (forall s, N.testbit x s = sbit s && (pb p k1 s || pb p k2 s)) ->
  forall n f r df dr,
  first_hit (occupied p) x (ray_squares n f r df dr)
  = (let m := first_on_ray n (board_of p) f r df dr in is_man c (kind_of_N k1) m || is_man c (kind_of_N k2) m).
Proof.
  intros H1 H2 Hx. induction n as [|n IH]; intros f r df dr; cbn [ray_squares first_on_ray first_hit]; [reflexivity|].
  cbv zeta. change (onb (f + df) (r + dr)) with (on_board (f + df) (r + dr)).
  destruct (on_board (f + df) (r + dr)) eqn:Hb; [|reflexivity].
  cbn [first_hit]. assert (Hlt : zsq (f + df) (r + dr) < 64) by (apply zsq_lt; exact Hb).
  rewrite at_zsq, Hb, (occupied_man _ Hlt).
  destruct (man_at p (zsq (f + df) (r + dr))) as [m|] eqn:Em.
  - rewrite Hx. rewrite <- Em, !is_man_bits by assumption. rewrite andb_orb_distrib_r. reflexivity.
  - apply IH.
Qed.

Lemma zfile_eq sq : zfile sq = Z.of_N (sq mod 8). Proof. unfold zfile. lia. Qed.
Lemma zrank_eq sq : zrank sq = Z.of_N (sq / 8). Proof. unfold zrank. lia. Qed.

Theorem bit_attacked_rules sq : sq < 64 ->
  bit_attacked p sq us = attacked (board_of p) c (Z.of_N (sq mod 8)) (Z.of_N (sq / 8)).
Proof.
  intros Hs. unfold bit_attacked, attacked. cbv zeta. fold sd. rewrite <- !zfile_eq, <- !zrank_eq.
  (* pawns *)
  assert (E1 : existsb (at_off (N.land (pawns p) sd) sq) (pawn_offs (negb us))
               = is_man c Pawn (at_ (board_of p) (zfile sq - 1) (zrank sq + match c with White => -1 | Black => 1 end))
                 || is_man c Pawn (at_ (board_of p) (zfile sq + 1) (zrank sq + match c with White => -1 | Black => 1 end))).
  { change (pawns p) with (get_piece p 0). change Pawn with (kind_of_N 0).
    change (match c with White => (-1)%Z | Black => 1%Z end) with (match (if us then White else Black) with White => (-1)%Z | Black => 1%Z end).
    rewrite pdir_form, pawn_offs_form. cbn [existsb].
    rewrite !(at_off_man _ 0 sq) by (lia || (intros s; apply land_side_bits; lia)). cbn [fst snd].
    rewrite orb_false_r, orb_comm. f_equal; f_equal; f_equal; lia. }
  assert (E2 : existsb (at_off (N.land (knights p) sd) sq) knight_offs
               = existsb (fun d => is_man c Knight (at_ (board_of p) (zfile sq + fst d) (zrank sq + snd d))) knight_d).
  { change (knights p) with (get_piece p 1). change Knight with (kind_of_N 1). change knight_d with knight_offs.
    apply existsb_ext_in. intros d _. apply at_off_man; [lia|]. intros s. apply land_side_bits. lia. }
  assert (E5 : existsb (at_off (N.land (kings p) sd) sq) king_offs
               = existsb (fun d => is_man c King (at_ (board_of p) (zfile sq + fst d) (zrank sq + snd d))) king_d).
  { change (kings p) with (get_piece p 5). change King with (kind_of_N 5). change king_d with king_offs.
    apply existsb_ext_in. intros d _. apply at_off_man; [lia|]. intros s. apply land_side_bits. lia. }
  assert (E3 : existsb (fun d => first_hit (occupied p) (N.land sd (N.lor (bishops p) (queens p))) (ray_of sq d)) bishop_dirs
               = existsb (fun d => let m := first_on_ray 7 (board_of p) (zfile sq) (zrank sq) (fst d) (snd d) in is_man c Bishop m || is_man c Queen m) diag_d).
  { change diag_d with bishop_dirs. apply existsb_ext_in. intros d _. unfold ray_of.
    change Bishop with (kind_of_N 2). change Queen with (kind_of_N 4). apply ray_first; [lia|lia|].
    intros s. rewrite N.land_spec, N.lor_spec, sd_bit. reflexivity. }
  assert (E4 : existsb (fun d => first_hit (occupied p) (N.land sd (N.lor (rooks p) (queens p))) (ray_of sq d)) rook_dirs
               = existsb (fun d => let m := first_on_ray 7 (board_of p) (zfile sq) (zrank sq) (fst d) (snd d) in is_man c Rook m || is_man c Queen m) orth_d).
  { change orth_d with rook_dirs. apply existsb_ext_in. intros d _. unfold ray_of.
    change Rook with (kind_of_N 3). change Queen with (kind_of_N 4). apply ray_first; [lia|lia|].
    intros s. rewrite N.land_spec, N.lor_spec, sd_bit. reflexivity. }
  rewrite E1, E2, E3, E4, E5. cbv zeta.
  repeat match goal with |- context [existsb ?f ?l] => generalize (existsb f l); intro end.
  repeat match goal with |- context [is_man ?a ?k ?m] => generalize (is_man a k m); intro end.
  repeat match goal with x : bool |- _ => match goal with |- context [x] => destruct x end end; reflexivity.
Qed.
End WhiteFrame.

(* with White to move, for either side as the attacker *)
Theorem is_sq_attacked_rules p sq us :
  turn p = false -> WF p -> BBp p -> sq < 64 -> popcount (N.land (kings p) (get_side p us)) = 1 ->
  is_sq_attacked p sq us = spec_attacked p sq us.
Proof.
  intros Ht HW HB Hs Hk. rewrite (is_sq_attacked_bits p sq us HB Hs Hk).
  rewrite (bit_attacked_rules p us Ht HW sq Hs).
  unfold spec_attacked, rel_sq. rewrite Ht. cbv zeta. destruct us; reflexivity.
Qed.

(* ------------------------------------------------------------------ Black to move: the stored frame is the mirror image *)
From Rawr Require Import MirrorFacts.

Definition set_turn (p : Position) (t : bool) : Position :=
  mkPos (c_us p) (c_them p) (pawns p) (knights p) (bishops p) (rooks p) (queens p) (kings p)
        (halfmoves p) (fullmoves p) t (ep p) (us_ksc p) (us_qsc p) (them_ksc p) (them_qsc p)
        (cf0 p) (cf1 p) (cf2 p) (cf3 p) (hash p) (is_frc p).

Lemma WF_set_turn p t : WF p -> WF (set_turn p t).
Proof. intros H s Hs. exact (H s Hs). Qed.

Lemma zsq_flip f r : on_board f r = true -> zsq f (7 - r) = flip_sq (zsq f r).
Proof.
  intros Hb. pose proof (zsq_lt f r Hb) as Hlt. change (flip_sq (zsq f r)) with (flipbit (zsq f r)).
  rewrite flipbit_arith by exact Hlt.
  unfold on_board in Hb. repeat (apply andb_true_iff in Hb; destruct Hb as [Hb ?]). unfold zsq. lia.
Qed.

Lemma board_mirrored p : turn p = true -> mirrored (board_of (set_turn p false)) (board_of p).
Proof.
  intros Ht f r. rewrite !at_zsq.
  assert (Ho : on_board f (7 - r) = on_board f r) by (apply onb_mirror).
  rewrite Ho. destruct (on_board f r) eqn:Hb; [|reflexivity].
  rewrite (zsq_flip f r Hb).
  unfold man_at, rel_sq. rewrite Ht. cbn [turn set_turn].
  change (piece_on (set_turn p false) (flip_sq (zsq f r))) with (piece_on p (flip_sq (zsq f r))).
  destruct (piece_on p (flip_sq (zsq f r))); [|reflexivity].
  change (c_us (set_turn p false)) with (c_us p). change (c_them (set_turn p false)) with (c_them p).
  destruct (is_set (c_us p) (flip_sq (zsq f r))); [reflexivity|].
  destruct (is_set (c_them p) (flip_sq (zsq f r))); reflexivity.
Qed.

Theorem is_sq_attacked_rules_black p sq us :
  turn p = true -> WF p -> BBp p -> sq < 64 -> popcount (N.land (kings p) (get_side p us)) = 1 ->
  is_sq_attacked p sq us = spec_attacked p sq us.
Proof.
  intros Ht HW HB Hs Hk. rewrite (is_sq_attacked_bits p sq us HB Hs Hk).
  change (bit_attacked p sq us) with (bit_attacked (set_turn p false) sq us).
  rewrite (bit_attacked_rules (set_turn p false) us eq_refl (WF_set_turn p false HW) sq Hs).
  unfold spec_attacked, rel_sq. rewrite Ht. cbv zeta.
  rewrite <- (attacked_mirror _ _ (if us then White else Black) _ _ (board_mirrored p Ht)).
  change (flip_sq sq) with (flipbit sq). rewrite flipbit_arith by exact Hs.
  f_equal; [destruct us; reflexivity|lia|lia].
Qed.

(* both frames *)
Theorem attack_query_is_the_rules p sq us :
  WF p -> BBp p -> sq < 64 -> popcount (N.land (kings p) (get_side p us)) = 1 ->
  is_sq_attacked p sq us = spec_attacked p sq us.
Proof.
  intros. destruct (turn p) eqn:Ht; [apply is_sq_attacked_rules_black|apply is_sq_attacked_rules]; assumption.
Qed.

(* under the executable premises *)
From Rawr Require Import KeyMove HashFacts.
Theorem attack_query_premises p : attack_pre_b p = true ->
  forall sq us, sq < 64 -> is_sq_attacked p sq us = spec_attacked p sq us.
Proof.
  unfold attack_pre_b. intros H sq us Hs.
  repeat match type of H with (_ && _) = true => let H' := fresh "P" in apply andb_true_iff in H; destruct H as [H H'] end.
  apply N.eqb_eq in P, P0. pose proof (bb8_sound p H) as HB. pose proof (WF_sound p P1) as HW.
  apply attack_query_is_the_rules; [exact HW|exact HB|exact Hs|destruct us; assumption].
Qed.
