(* Facts about the command layer (C05, C16, C15). *)
From Coq Require Import NArith ZArith List Bool String Lia.
From Rawr Require Import Consts Bits Magic Position MoveGen MakeMove Fen Eval TT Search Uci.
Import ListNotations.
Local Open Scope N_scope.

(* ---- C05: one token at a time *)
Lemma moves_cmd_known p h out t rest m :
  find_move p t = Some m ->
  moves_cmd (t :: rest) p h out = moves_cmd rest (makemove true p m) (hash (makemove true p m) :: h) out.
Proof. intros H. cbn [moves_cmd]. rewrite H. reflexivity. Qed.

Lemma moves_cmd_unknown p h out t rest :
  find_move p t = None ->
  moves_cmd (t :: rest) p h out = moves_cmd rest p h ((lit "info string unknown move " ++ t) :: out).
Proof. intros H. cbn [moves_cmd]. rewrite H. reflexivity. Qed.

(* the history grows by exactly one key per token that denotes a move, and by the key of the position reached *)
Fixpoint positions_reached (toks : list str) (p : Position) : list Position :=
  match toks with
  | [] => []
  | t :: rest => match find_move p t with
                 | Some m => makemove true p m :: positions_reached rest (makemove true p m)
                 | None => positions_reached rest p
                 end
  end.

Lemma last_cons_indep {A} (a : A) l d d' : last (a :: l) d = last (a :: l) d'.
Proof. revert a. induction l as [|b l IH]; intros a; [reflexivity|]. cbn [last] in *. apply IH. Qed.

Theorem moves_history toks : forall p h out,
  let '(p', h', _) := moves_cmd toks p h out in
  h' = rev (map hash (positions_reached toks p)) ++ h
  /\ p' = last (positions_reached toks p) p.
Proof.
  induction toks as [|t rest IH]; intros p h out; cbn [moves_cmd positions_reached].
  - split; reflexivity.
  - destruct (find_move p t) as [m|].
    + specialize (IH (makemove true p m) (hash (makemove true p m) :: h) out).
      destruct (moves_cmd rest (makemove true p m) (hash (makemove true p m) :: h) out) as [[p' h'] o'].
      destruct IH as [IH1 IH2]. split.
      * rewrite IH1. cbn [map rev]. rewrite <- app_assoc. reflexivity.
      * rewrite IH2. destruct (positions_reached rest (makemove true p m)) as [|p0 l]; [reflexivity|].
        change (last (makemove true p m :: p0 :: l) p) with (last (p0 :: l) p). apply last_cons_indep.
    + apply IH.
Qed.

(* a token that denotes nothing changes neither position nor history (it only adds a diagnostic) *)
Theorem unknown_token_is_noop p h t :
  find_move p t = None ->
  moves_cmd [t] p h [] = (p, h, [lit "info string unknown move " ++ t]).
Proof. intros H. cbn [moves_cmd]. rewrite H. reflexivity. Qed.

(* a token is only ever resolved to a legal move *)
Theorem find_move_legal p t m : find_move p t = Some m -> In m (legal_moves p).
Proof.
  unfold find_move. destruct (find _ (legal_moves p)) as [x|] eqn:E.
  - intros H. injection H as <-. apply find_some in E. apply E.
  - match goal with |- match ?w with _ => _ end = _ -> _ => destruct w as [qs|]; [|discriminate] end.
    match goal with |- (if ?c then _ else _) = _ -> _ => destruct c eqn:Ec; [|discriminate] end.
    intros H. injection H as <-. apply andb_prop in Ec. destruct Ec as [_ Ec].
    apply existsb_exists in Ec. destruct Ec as (x & Hin & Heq).
    unfold mv_eqb in Heq. apply andb_prop in Heq. destruct Heq as [Heq H3]. apply andb_prop in Heq. destruct Heq as [H1 H2].
    apply N.eqb_eq in H1, H2, H3. destruct x as [xf xt xp]. cbn in *. subst. exact Hin.
Qed.

(* ---- C16: what `position` computes depends on the engine state only through the Chess960 flag *)
Theorem position_depends_on_flag_only mode toks p q :
  is_frc p = is_frc q -> position_cmd mode toks p = position_cmd mode toks q.
Proof. intros H. unfold position_cmd. rewrite H. reflexivity. Qed.

Lemma tt_clear_eq (t1 t2 : TTable) : t_len t1 = t_len t2 -> tt_clear t1 = tt_clear t2.
Proof. intros H. unfold tt_clear, t_clear. rewrite H. reflexivity. Qed.

(* after ucinewgame two engines with the same option values and table size are in the SAME state, so every later
   command (position, reports, searches) gives the same output, whatever happened before *)
Theorem newgame_resets mode s1 s2 c :
  tok_is c "ucinewgame" = true ->
  u_frc s1 = u_frc s2 -> u_hash s1 = u_hash s2 -> t_len (u_tt s1) = t_len (u_tt s2) ->
  step mode s1 [c] = step mode s2 [c].
Proof.
  intros Hc Hf Hh Hl. unfold step. rewrite Hc. rewrite Hf, Hh, (tt_clear_eq _ _ Hl). reflexivity.
Qed.

Theorem newgame_state mode s c :
  tok_is c "ucinewgame" = true ->
  step mode s [c] = Cont (mkU (set_frc startpos (u_frc s)) [hash (set_frc startpos (u_frc s))]
                              (tt_clear (u_tt s)) (u_hash s) (u_frc s)) [].
Proof. intros Hc. unfold step. rewrite Hc. reflexivity. Qed.

(* without ucinewgame: position and history after `position ...` do not depend on what came before *)
Theorem position_resets_pos_history mode s1 s2 c args :
  tok_is c "ucinewgame" = false -> tok_is c "isready" = false ->
  tok_is c "print" = false -> tok_is c "display" = false -> tok_is c "board" = false -> tok_is c "go" = false ->
  tok_is c "position" = true ->
  is_frc (u_pos s1) = is_frc (u_pos s2) -> u_frc s1 = u_frc s2 ->
  match step mode s1 (c :: args), step mode s2 (c :: args) with
  | Cont a o1, Cont b o2 => u_pos a = u_pos b /\ u_hist a = u_hist b /\ o1 = o2
  | Panic _, Panic _ => True
  | _, _ => False
  end.
Proof.
  intros H1 H2 H3 H4 H5 H6 H7 Hf Hu. unfold step. rewrite H1, H2, H3, H4, H5, H6, H7. cbn [orb].
  rewrite (position_depends_on_flag_only mode args _ _ Hf).
  destruct (position_cmd mode args (u_pos s2)) as [[[p h] o]|]; [|exact I].
  rewrite Hu. repeat split.
Qed.

(* ---- C15 (command layer): a line that is not `position` never makes the model panic *)
Theorem step_no_panic_unless_position mode s c args site :
  step mode s (c :: args) = Panic site -> tok_is c "position" = true.
Proof.
  unfold step.
  repeat match goal with |- (if ?x then _ else _) = _ -> _ => destruct x eqn:?; try discriminate end.
  - unfold go_cmd. destruct (parse_go args) as [[]|]; try discriminate; unfold go_search;
      match goal with |- match ?x with _ => _ end = _ -> _ => destruct x; discriminate end.
  - reflexivity.
  - destruct (moves_cmd args (u_pos s) (u_hist s) []) as [[p h] o]. discriminate.
Qed.

(* and `position` panics exactly when the FEN is rejected by the parser *)
Theorem position_panics_iff_fen_rejected mode toks p :
  position_cmd mode toks p = None <->
  set_fen mode (is_frc p)
    (fst (match toks with
          | t :: rest => if tok_is t "startpos" then (lit "startpos", tl rest)
                         else if tok_is t "fen" then (let '(f, r) := take_fen rest [] in (trim_end f, r)) else ([], rest)
          | [] => ([], [])
          end)) = None.
Proof.
  unfold position_cmd.
  destruct toks as [|t rest]; cbn [fst].
  - destruct (set_fen mode (is_frc p) []); split; congruence.
  - destruct (tok_is t "startpos"); cbn [fst].
    + destruct (set_fen mode (is_frc p) (lit "startpos")); split; congruence.
    + destruct (tok_is t "fen").
      * destruct (take_fen rest []) as [f r]. cbn [fst]. destruct (set_fen mode (is_frc p) (trim_end f)); split; congruence.
      * cbn [fst]. destruct (set_fen mode (is_frc p) []); split; congruence.
Qed.
