(* Generic fail-soft alpha-beta over an abstract tree (C19): soundness of the returned bound and exactness
   inside the window, against the unpruned negamax value.  Section variables: node type, static
   evaluation, ordered child list. *)
From Coq Require Import ZArith List Lia Bool Permutation.
Import ListNotations.
Local Open Scope Z_scope.

Section AB.
Variable node : Type.
Variable ev : node -> Z.
Variable kids : node -> list node.

(* fail-soft quiescence exactly as qsearch.rs: stand pat, loop with best/alpha, beta cut *)
Fixpoint qs (fuel : nat) (p : node) (alpha beta : Z) : option Z :=
  match fuel with
  | O => None
  | S f =>
    let sp := ev p in
    if beta <=? sp then Some sp else
    let alpha0 := if alpha <? sp then sp else alpha in
    (fix loop (cs : list node) (alpha best : Z) : option Z :=
       match cs with
       | [] => Some best
       | c :: cs' =>
         match qs f c (- beta) (- alpha) with
         | None => None
         | Some v =>
           let score := - v in
           let best' := if best <? score then score else best in
           let alpha' := if alpha <? score then score else alpha in
           if beta <=? alpha' then Some best' else loop cs' alpha' best'
         end
       end) (kids p) alpha0 sp
  end.

(* exact value of the capture tree *)
Fixpoint mm (fuel : nat) (p : node) : option Z :=
  match fuel with
  | O => None
  | S f =>
    (fix go (cs : list node) (acc : Z) : option Z :=
       match cs with
       | [] => Some acc
       | c :: cs' => match mm f c with None => None | Some v => go cs' (Z.max acc (- v)) end
       end) (kids p) (ev p)
  end.

Definition ok (a b v m : Z) : Prop :=
  (a < v < b -> v = m) /\ (v <= a -> m <= v) /\ (b <= v -> v <= m).

Lemma qs_sound : forall fuel p a b v m,
  a < b -> qs fuel p a b = Some v -> mm fuel p = Some m -> ok a b v m.
Proof.
  induction fuel as [|f IH]; intros p a b v m Hab Hq Hm; [discriminate|].
  cbn [qs mm] in Hq, Hm.
  set (sp := ev p) in *.
  (* generalised loop statement *)
  assert (Hloop : forall cs alpha best acc v m,
    alpha < b -> a <= alpha -> best <= alpha -> acc <= best -> (a < best -> best <= acc) ->
    (alpha = Z.max a best \/ (alpha = a /\ best <= a)) ->
    (fix loop (cs : list node) (alpha best : Z) : option Z :=
       match cs with
       | [] => Some best
       | c :: cs' =>
         match qs f c (- b) (- alpha) with
         | None => None
         | Some v =>
           let score := - v in
           let best' := if best <? score then score else best in
           let alpha' := if alpha <? score then score else alpha in
           if b <=? alpha' then Some best' else loop cs' alpha' best'
         end
       end) cs alpha best = Some v ->
    (fix go (cs : list node) (acc : Z) : option Z :=
       match cs with
       | [] => Some acc
       | c :: cs' => match mm f c with None => None | Some v => go cs' (Z.max acc (- v)) end
       end) cs acc = Some m ->
    (a < v < b -> v = m) /\ (v <= a -> m <= v) /\ (b <= v -> v <= m) /\ acc <= m).
  { induction cs as [|c cs IHcs]; intros alpha best acc v0 m0 Hlt Hge Hba Hacc Hex Hal Hl Hg.
    - inversion Hl; inversion Hg; subst. repeat split; lia.
    - destruct (qs f c (- b) (- alpha)) as [vc|] eqn:Eq; [|discriminate].
      destruct (mm f c) as [mc|] eqn:Em; [|discriminate].
      assert (Hc : ok (- b) (- alpha) vc mc) by (apply (IH c); auto; lia).
      destruct Hc as (Hc1 & Hc2 & Hc3).
      cbn zeta in Hl.
      destruct (b <=? (if alpha <? - vc then - vc else alpha)) eqn:Ecut.
      + (* cut-off *)
        inversion Hl; subst v0; clear Hl.
        assert (Hm0 : Z.max acc (- mc) <= m0).
        { clear - Hg. revert Hg. generalize (Z.max acc (- mc)). induction cs as [|c' cs' IHc]; intros x Hg.
          - inversion Hg; lia.
          - destruct (mm f c'); [|discriminate]. apply IHc in Hg. lia. }
        destruct (alpha <? - vc) eqn:E1; destruct (best <? - vc) eqn:E2; lia.
      + eapply IHcs in Hl; [| | | | | | | exact Hg].
        * destruct Hl as (H1 & H2 & H3 & H4). repeat split; try assumption; lia.
        * destruct (alpha <? - vc) eqn:E1; lia.
        * destruct (alpha <? - vc) eqn:E1; lia.
        * destruct (alpha <? - vc) eqn:E1; destruct (best <? - vc) eqn:E2; lia.
        * destruct (alpha <? - vc) eqn:E1; destruct (best <? - vc) eqn:E2; lia.
        * destruct (alpha <? - vc) eqn:E1; destruct (best <? - vc) eqn:E2; lia.
        * destruct (alpha <? - vc) eqn:E1; destruct (best <? - vc) eqn:E2; lia. }
  destruct (b <=? sp) eqn:Esp.
  - inversion Hq; subst v.
    assert (sp <= m).
    { clear - Hm. revert Hm. generalize sp. generalize (kids p). induction l as [|c' cs' IHc]; intros x Hg.
      - inversion Hg; lia.
      - destruct (mm f c'); [|discriminate]. apply IHc in Hg. lia. }
    unfold ok. lia.
  - eapply Hloop in Hq; [| | | | | | | exact Hm].
    + unfold ok. tauto.
    + destruct (a <? sp) eqn:E; lia.
    + destruct (a <? sp) eqn:E; lia.
    + destruct (a <? sp) eqn:E; lia.
    + lia.
    + lia.
    + destruct (a <? sp) eqn:E; lia.
Qed.
End AB.

(* the exact value does not depend on the order of the children *)
Section Perm.
Variable node : Type.
Variable ev : node -> Z.

Lemma go_max_perm (f : node -> option Z) : forall l1 l2, Permutation l1 l2 -> forall acc,
  (fix go (cs : list node) (acc : Z) : option Z :=
     match cs with [] => Some acc | c :: cs' => match f c with None => None | Some v => go cs' (Z.max acc (- v)) end end) l1 acc
  = (fix go (cs : list node) (acc : Z) : option Z :=
     match cs with [] => Some acc | c :: cs' => match f c with None => None | Some v => go cs' (Z.max acc (- v)) end end) l2 acc.
Proof.
  induction 1 as [|x l l' HP IH|x y l|l l' l'' H1 IH1 H2 IH2]; intros acc.
  - reflexivity.
  - destruct (f x); [apply IH|reflexivity].
  - destruct (f y) as [vy|], (f x) as [vx|]; try reflexivity.
    replace (Z.max (Z.max acc (- vy)) (- vx)) with (Z.max (Z.max acc (- vx)) (- vy)) by lia. reflexivity.
  - rewrite IH1. apply IH2.
Qed.
End Perm.
