(* C03 / C13 / C14 / C15 without "modulo fuel": the search of the model terminates (SearchTotal.v), its result does not depend
   on the fuel beyond the bound (FuelFacts.v), so the root-level theorems hold for the result the search DOES produce. *)
From Coq Require Import NArith ZArith List Bool Lia.
From Rawr Require Import Consts Bits Magic Position MoveGen MakeMove MakeStages Eval TT Search
                         Closure MenCount EpRetro SearchFacts SearchBound GenLegal FuelFacts SearchTotal.
Import ListNotations.
Local Open Scope Z_scope.

Definition ROOT_FUEL : nat := Z.to_nat 61442.

Lemma root_fuel_ok : 61442 <= Z.of_nat ROOT_FUEL /\ Z.of_nat ROOT_FUEL <= 2 * MATE_SCORE.
Proof. unfold ROOT_FUEL, MATE_SCORE. rewrite Z2Nat.id by lia. lia. Qed.

(* the search always returns, and what it returns is the same for every fuel above the bound *)
Theorem root_returns stopf p hist tt : InvSR p -> t_len tt <> 0%N -> 0 <= halfmoves p ->
  exists r, forall fuel, (ROOT_FUEL <= fuel)%nat -> root stopf fuel p hist tt = Some r.
Proof.
  intros I Hn Hh. destruct (root stopf ROOT_FUEL p hist tt) as [r|] eqn:E.
  - exists r. intros fuel Hf. exact (root_fuel_mono stopf ROOT_FUEL fuel p hist tt r Hf E).
  - exfalso. exact (root_total_const stopf p hist tt ROOT_FUEL I Hn Hh (proj1 root_fuel_ok) E).
Qed.

(* C03, total form: a legal answer for every limit, history and admissible table with at least one slot *)
Theorem search_always_answers_with_a_legal_move stopf p hist tt :
  InvSR p -> TBnd tt -> t_len tt <> 0%N -> 0 <= halfmoves p -> legal_moves p <> [] ->
  exists r, (forall fuel, (ROOT_FUEL <= fuel)%nat -> root stopf fuel p hist tt = Some r)
            /\ exists m, rr_best r = Some m /\ In m (legal_moves p).
Proof.
  intros I Ht Hn Hh Hl. destruct (root_returns stopf p hist tt I Hn Hh) as (r & Hr). exists r. split; [exact Hr|].
  exact (search_answers_with_a_legal_move stopf ROOT_FUEL p hist tt r I Ht (proj2 root_fuel_ok) Hl (Hr ROOT_FUEL (le_n _))).
Qed.

(* C14, total form: the scores of the result are within the mate bounds and the table left behind is admissible again *)
Theorem search_always_reports_bounded_scores stopf p hist tt :
  InvSR p -> TBnd tt -> t_len tt <> 0%N -> 0 <= halfmoves p ->
  exists r, (forall fuel, (ROOT_FUEL <= fuel)%nat -> root stopf fuel p hist tt = Some r)
            /\ (forall i, In i (rr_infos r) -> - MATE_SCORE <= i_score i <= MATE_SCORE /\ - INF < i_score i < INF)
            /\ TBnd (ss_tt (rr_state r)).
Proof.
  intros I Ht Hn Hh. destruct (root_returns stopf p hist tt I Hn Hh) as (r & Hr). exists r. split; [exact Hr|].
  exact (search_scores_within_the_mate_bounds stopf ROOT_FUEL p hist tt r I Ht (proj2 root_fuel_ok) (Hr ROOT_FUEL (le_n _))).
Qed.

Print Assumptions root_returns.
Print Assumptions search_always_answers_with_a_legal_move.
Print Assumptions search_always_reports_bounded_scores.
