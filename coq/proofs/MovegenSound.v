(* C01, soundness: every move the generator emits is a legal move of the rules (spec/Rules.v), in both frames, on every
   position satisfying the invariant and the en-passant consistency.  White frame: block by block the generated move is in
   the rules' pseudo-legal list (PseudoPieces, PseudoPawns, PseudoCastle), it does not leave the king attacked (GenLegal) and
   the rules' filter is the engine's test (LegalBridge).  Black frame: the generator does not read the side-to-move flag
   (SetTurn) and the rules are mirror-symmetric (RulesMirror). *)
From Coq Require Import NArith ZArith List Bool Lia.
From Rawr Require Import Consts Bits Magic Position MoveGen MakeMove MakeStages Rules Abs
                         HashFacts MakeFacts KeyAbs AttackAbs GenSane GenNoDup Closure EpRetro GenLegal LegalBridge
                         RulesMirror SetTurn PseudoBase PseudoPieces PseudoPawns PseudoCastle.
Import ListNotations.
Local Open Scope N_scope.

Theorem generated_pseudo_white p g : turn p = false -> Inv0 p -> In g (move_generator p) ->
  In (dec p (gen_mv g)) (pseudo_moves (abs_state p)).
Proof.
  intros Ht I Hg. pose proof (i0_good p I) as G. rewrite generator_blocks in Hg.
  repeat (apply in_app_or in Hg; destruct Hg as [Hg|Hg]).
  - exact (singles_pseudo p Ht G g Hg).
  - exact (doubles_pseudo p Ht G g Hg).
  - exact (cap_ne_pseudo p Ht G g Hg).
  - exact (cap_nw_pseudo p Ht G g Hg).
  - exact (ep_pseudo p Ht G g Hg).
  - exact (knights_pseudo p Ht G g Hg).
  - exact (bishops_pinned_pseudo p Ht G g Hg).
  - exact (bishops_free_pseudo p Ht G g Hg).
  - exact (rooks_pinned_pseudo p Ht G g Hg).
  - exact (rooks_free_pseudo p Ht G g Hg).
  - exact (queens_bpinned_pseudo p Ht G g Hg).
  - exact (queens_rpinned_pseudo p Ht G g Hg).
  - exact (queens_free_pseudo p Ht G g Hg).
  - exact (king_steps_pseudo p Ht G g Hg).
  - exact (castle_k_pseudo p Ht I g Hg).
  - exact (castle_q_pseudo p Ht I g Hg).
Qed.

(* every generated move is pseudo-legal by the rules, whoever is to move *)
Theorem generated_pseudo p m : Inv0 p -> In m (legal_moves p) -> In (dec p m) (pseudo_moves (abs_state p)).
Proof.
  intros I Hm. pose proof (i0_good p I) as G. pose proof (i0_cg p I) as CG.
  destruct (generated_side_conditions p m G CG Hm) as (Hf & Hto & _).
  unfold legal_moves in Hm. apply in_map_iff in Hm. destruct Hm as (g & <- & Hg).
  destruct (turn p) eqn:Ht.
  - (* Black to move: go through the White twin *)
    pose proof (generated_pseudo_white (set_turn p false) g eq_refl (Inv0_set_turn p false I)) as Hw.
    rewrite mg_set_turn in Hw. specialize (Hw Hg).
    assert (Hep : forall e, ep p = Some e -> e < 64) by (intros e He; destruct (g_ep p G e He) as ((_ & H) & _); exact H).
    rewrite (dec_mirror p (gen_mv g) Ht Hf Hto). apply (proj1 (pseudo_abs_mirror p _ Ht Hep)). exact Hw.
  - exact (generated_pseudo_white p g Ht I Hg).
Qed.

Theorem movegen_sound p m : Inv0 p -> ep_ok_b p = true -> In m (legal_moves p) -> In m (spec_legal p).
Proof.
  intros I He Hm.
  exact (sound_reduce false p m I Hm (gen_legal false p m I He Hm) (generated_pseudo p m I Hm)).
Qed.

Print Assumptions generated_pseudo.
Print Assumptions movegen_sound.
