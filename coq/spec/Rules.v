(* The rules of chess on an 8x8 board of optional (colour, kind): the readable specification the
   bitboard model is compared with (C01, C02, C08) and that decides, on a disagreement between model
   and implementation, whether a property really fails.  No bitboards, no tricks: squares are (file,
   rank) pairs of integers, rays are walked square by square.  Standard chess and Chess960 (castling
   by king and rook files; a castling move is written king-takes-own-rook). *)
From Coq Require Import ZArith List Bool.
Import ListNotations.
Local Open Scope Z_scope.

Inductive colour := White | Black.
Inductive kind := Pawn | Knight | Bishop | Rook | Queen | King.

Definition colour_eqb (a b : colour) : bool :=
  match a, b with White, White | Black, Black => true | _, _ => false end.
Definition kind_eqb (a b : kind) : bool :=
  match a, b with
  | Pawn, Pawn | Knight, Knight | Bishop, Bishop | Rook, Rook | Queen, Queen | King, King => true
  | _, _ => false
  end.
Definition opp (c : colour) : colour := match c with White => Black | Black => White end.

Definition man := (colour * kind)%type.
Definition board := list (option man).          (* 64 entries, index 8*rank + file *)

Definition onb (f r : Z) : bool := (0 <=? f) && (f <? 8) && (0 <=? r) && (r <? 8).
Definition idx (f r : Z) : nat := Z.to_nat (8 * r + f).
Definition at_ (b : board) (f r : Z) : option man := if onb f r then nth (idx f r) b None else None.
Fixpoint upd (b : board) (i : nat) (v : option man) : board :=
  match b, i with
  | [], _ => []
  | _ :: t, O => v :: t
  | x :: t, S i' => x :: upd t i' v
  end.
Definition put (b : board) (f r : Z) (v : option man) : board := if onb f r then upd b (idx f r) v else b.

(* castling right = Some (file of the rook it refers to) *)
Record sstate := mkS {
  s_board : board; s_turn : colour;
  s_wk : option Z; s_wq : option Z; s_bk : option Z; s_bq : option Z;
  s_ep : option (Z * Z);            (* square passed over by the pawn that just advanced two squares *)
  s_half : Z; s_full : Z
}.

(* a move: origin, destination, promotion piece; castling = king's square -> own rook's square *)
Record smove := mkM { mf : Z; mr : Z; tf : Z; tr : Z; promo : option kind }.

Definition is_col (c : colour) (o : option man) : bool :=
  match o with Some (c', _) => colour_eqb c c' | None => false end.
Definition is_man (c : colour) (k : kind) (o : option man) : bool :=
  match o with Some (c', k') => colour_eqb c c' && kind_eqb k k' | None => false end.
Definition is_empty (o : option man) : bool := match o with None => true | Some _ => false end.

Definition knight_d : list (Z * Z) := [(1, 2); (-1, 2); (2, 1); (2, -1); (-2, 1); (-2, -1); (1, -2); (-1, -2)].
Definition king_d : list (Z * Z) := [(0, 1); (-1, 1); (1, 1); (-1, 0); (1, 0); (0, -1); (-1, -1); (1, -1)].
Definition diag_d : list (Z * Z) := [(1, 1); (-1, 1); (1, -1); (-1, -1)].
Definition orth_d : list (Z * Z) := [(0, 1); (0, -1); (1, 0); (-1, 0)].

(* first man met when walking from (f, r) in direction d (the square itself excluded) *)
Fixpoint first_on_ray (n : nat) (b : board) (f r df dr : Z) : option man :=
  match n with
  | O => None
  | S n' =>
    let f' := f + df in let r' := r + dr in
    if onb f' r' then match at_ b f' r' with Some m => Some m | None => first_on_ray n' b f' r' df dr end
    else None
  end.

(* is square (f, r) attacked by a man of colour c ? *)
Definition attacked (b : board) (c : colour) (f r : Z) : bool :=
  let pdir := match c with White => -1 | Black => 1 end in    (* where an attacking pawn stands, seen from the square *)
  is_man c Pawn (at_ b (f - 1) (r + pdir)) || is_man c Pawn (at_ b (f + 1) (r + pdir))
  || existsb (fun d => is_man c Knight (at_ b (f + fst d) (r + snd d))) knight_d
  || existsb (fun d => is_man c King (at_ b (f + fst d) (r + snd d))) king_d
  || existsb (fun d => let m := first_on_ray 7 b f r (fst d) (snd d) in is_man c Bishop m || is_man c Queen m) diag_d
  || existsb (fun d => let m := first_on_ray 7 b f r (fst d) (snd d) in is_man c Rook m || is_man c Queen m) orth_d.

Definition all_squares : list (Z * Z) :=
  flat_map (fun r => map (fun f => (f, r)) [0; 1; 2; 3; 4; 5; 6; 7]) [0; 1; 2; 3; 4; 5; 6; 7].

Definition king_sq (b : board) (c : colour) : option (Z * Z) :=
  find (fun s => is_man c King (at_ b (fst s) (snd s))) all_squares.
Definition in_check_of (b : board) (c : colour) : bool :=
  match king_sq b c with Some (f, r) => attacked b (opp c) f r | None => false end.

Definition home (c : colour) : Z := match c with White => 0 | Black => 7 end.
Definition kright (s : sstate) (c : colour) := match c with White => s_wk s | Black => s_bk s end.
Definition qright (s : sstate) (c : colour) := match c with White => s_wq s | Black => s_bq s end.

(* ---- applying a move (assumed pseudo-legal) *)
Definition is_castle (s : sstate) (m : smove) : bool :=
  is_man (s_turn s) King (at_ (s_board s) (mf m) (mr m)) && is_man (s_turn s) Rook (at_ (s_board s) (tf m) (tr m)).
Definition is_ep_capture (s : sstate) (m : smove) : bool :=
  is_man (s_turn s) Pawn (at_ (s_board s) (mf m) (mr m))
  && negb (mf m =? tf m) && is_empty (at_ (s_board s) (tf m) (tr m)).

Definition lose (right : option Z) (c : colour) (f r : Z) : option Z :=     (* a man leaves or lands on (f, r) *)
  match right with Some rf => if (f =? rf) && (r =? home c) then None else right | None => None end.

Definition apply (s : sstate) (m : smove) : sstate :=
  let b := s_board s in
  let c := s_turn s in
  let mover := at_ b (mf m) (mr m) in
  let target := at_ b (tf m) (tr m) in
  let castle := is_castle s m in
  let epc := is_ep_capture s m in
  let pawn := is_man c Pawn mover in
  let b' :=
    if castle then
      let kside := mf m <? tf m in
      let b1 := put (put b (mf m) (mr m) None) (tf m) (tr m) None in
      put (put b1 (if kside then 6 else 2) (mr m) (Some (c, King))) (if kside then 5 else 3) (mr m) (Some (c, Rook))
    else
      let b1 := put b (mf m) (mr m) None in
      let b1 := if epc then put b1 (tf m) (mr m) None else b1 in
      put b1 (tf m) (tr m) (match promo m with Some k => Some (c, k) | None => mover end) in
  let king_moves := is_man c King mover in
  let upd_right (right : option Z) (rc : colour) : option Z :=
    if king_moves && colour_eqb rc c then None
    else lose (lose right rc (mf m) (mr m)) rc (tf m) (tr m) in
  let double := pawn && ((tr m - mr m =? 2) || (mr m - tr m =? 2)) in
  let capture := negb castle && (negb (is_empty target) || epc) in
  mkS b' (opp c)
      (upd_right (s_wk s) White) (upd_right (s_wq s) White) (upd_right (s_bk s) Black) (upd_right (s_bq s) Black)
      (if double then Some (mf m, (mr m + tr m) / 2) else None)
      (if pawn || capture then 0 else s_half s + 1)
      (match c with Black => s_full s + 1 | White => s_full s end).

Definition pass_turn (s : sstate) : sstate :=    (* the null move: turn passes, ep target cleared, clock 0 as the engine does *)
  mkS (s_board s) (opp (s_turn s)) (s_wk s) (s_wq s) (s_bk s) (s_bq s) None 0 (s_full s).

(* ---- pseudo-legal moves *)
Fixpoint slide (n : nat) (b : board) (c : colour) (f0 r0 f r df dr : Z) : list smove :=
  match n with
  | O => []
  | S n' =>
    let f' := f + df in let r' := r + dr in
    if onb f' r' then
      match at_ b f' r' with
      | None => mkM f0 r0 f' r' None :: slide n' b c f0 r0 f' r' df dr
      | Some (c', _) => if colour_eqb c c' then [] else [mkM f0 r0 f' r' None]
      end
    else []
  end.

Definition step_moves (b : board) (c : colour) (f r : Z) (ds : list (Z * Z)) : list smove :=
  flat_map (fun d =>
    let f' := f + fst d in let r' := r + snd d in
    if onb f' r' && negb (is_col c (at_ b f' r')) then [mkM f r f' r' None] else []) ds.

Definition with_promo (c : colour) (m : smove) : list smove :=
  if tr m =? home (opp c)
  then map (fun k => mkM (mf m) (mr m) (tf m) (tr m) (Some k)) [Queen; Rook; Bishop; Knight]
  else [m].

Definition pawn_moves (s : sstate) (f r : Z) : list smove :=
  let b := s_board s in
  let c := s_turn s in
  let dir := match c with White => 1 | Black => -1 end in
  let start := match c with White => 1 | Black => 6 end in
  let one := if onb f (r + dir) && is_empty (at_ b f (r + dir)) then with_promo c (mkM f r f (r + dir) None) else [] in
  let two := if (r =? start) && is_empty (at_ b f (r + dir)) && is_empty (at_ b f (r + 2 * dir))
             then [mkM f r f (r + 2 * dir) None] else [] in
  let cap (df : Z) :=
    let f' := f + df in let r' := r + dir in
    if onb f' r' then
      if is_col (opp c) (at_ b f' r') then with_promo c (mkM f r f' r' None)
      else match s_ep s with
           | Some (ef, er) => if (ef =? f') && (er =? r') && is_empty (at_ b f' r') then [mkM f r f' r' None] else []
           | None => []
           end
    else [] in
  one ++ two ++ cap 1 ++ cap (-1).

Definition between_incl (a b : Z) : list Z :=      (* all files from a to b, both included, either order *)
  let lo := Z.min a b in let hi := Z.max a b in
  filter (fun x => (lo <=? x) && (x <=? hi)) [0; 1; 2; 3; 4; 5; 6; 7].

(* castling with the rook on file rf (FIDE Chess960 rules, article 3 of the Chess960 appendix) *)
Definition castle_moves (s : sstate) (kf : Z) (right : option Z) (kside : bool) : list smove :=
  match right with
  | None => []
  | Some rf =>
    let b := s_board s in
    let c := s_turn s in
    let h := home c in
    let kt := if kside then 6 else 2 in
    let rt := if kside then 5 else 3 in
    let kpath := between_incl kf kt in
    let rpath := between_incl rf rt in
    if is_man c Rook (at_ b rf h)
       && (if kside then kf <? rf else rf <? kf)
       (* every square the king or the rook travels over or lands on is vacant, the two men aside *)
       && forallb (fun x => (x =? kf) || (x =? rf) || is_empty (at_ b x h)) (kpath ++ rpath)
       (* not out of check, not through or into an attacked square *)
       && forallb (fun x => negb (attacked b (opp c) x h)) kpath
    then [mkM kf h rf h None] else []
  end.

Definition pseudo_moves (s : sstate) : list smove :=
  let b := s_board s in
  let c := s_turn s in
  flat_map (fun sq =>
    let f := fst sq in let r := snd sq in
    match at_ b f r with
    | Some (c', k) =>
      if colour_eqb c c' then
        match k with
        | Pawn => pawn_moves s f r
        | Knight => step_moves b c f r knight_d
        | Bishop => flat_map (fun d => slide 7 b c f r f r (fst d) (snd d)) diag_d
        | Rook => flat_map (fun d => slide 7 b c f r f r (fst d) (snd d)) orth_d
        | Queen => flat_map (fun d => slide 7 b c f r f r (fst d) (snd d)) (diag_d ++ orth_d)
        | King => step_moves b c f r king_d
                  ++ (if r =? home c then castle_moves s f (kright s c) true ++ castle_moves s f (qright s c) false else [])
        end
      else []
    | None => []
    end) all_squares.

(* legal = pseudo-legal and the mover's king is not attacked afterwards *)
Definition legal (s : sstate) : list smove :=
  filter (fun m => negb (in_check_of (s_board (apply s m)) (s_turn s))) (pseudo_moves s).

Definition captures (s : sstate) (m : smove) : bool :=
  negb (is_castle s m) && (is_col (opp (s_turn s)) (at_ (s_board s) (tf m) (tr m)) || is_ep_capture s m).

Definition checkmate (s : sstate) : bool :=
  match legal s with [] => in_check_of (s_board s) (s_turn s) | _ => false end.
Definition stalemate (s : sstate) : bool :=
  match legal s with [] => negb (in_check_of (s_board s) (s_turn s)) | _ => false end.

(* number of leaves of the legal move tree *)
Fixpoint leaves (d : nat) (s : sstate) : Z :=
  match d with
  | O => 1
  | S d' => fold_left (fun acc m => acc + leaves d' (apply s m)) (legal s) 0
  end.
