(* makemove.rs cut into its stages (move the man, remove a captured man, remove the en-passant victim, castling
   fix-up, promotion), the clock / en-passant / castling-right updates as separate functions, and the executable test
   `premises_b` under which proofs/MakeAbs.v proves that makemove refines Rules.apply.  Definitions only:
   `makemove_stages` (proofs/MakeFacts.v) shows by computation that the stages compose to MakeMove.makemove. *)
From Coq Require Import NArith ZArith List Bool.
From Rawr Require Import Consts Bits Magic Position MoveGen MakeMove.
Import ListNotations.
Local Open Scope N_scope.

(* ------------------------------------------------------------------ stages *)
Definition st_move (p : Position) (ft k : N) : Position := xor_piece (xor_us p ft) k ft.
Definition st_capture (p : Position) (to c : N) : Position :=
  if is_set (c_them p) to then xor_piece (xor_them p (bit to)) c (bit to) else p.
Definition st_ep (p : Position) (is_ep : bool) (vic : N) : Position :=
  if is_ep then xor_piece (xor_them p vic) PAWN vic else p.
Definition st_castle (p p0 : Position) (from to : N) : Position :=
  if is_occ (N.land (kings p) (rooks p)) && (from <? to)
  then castle_fix p from to (sq_of (cf0 p0) 0) G1 F1
  else if is_occ (N.land (kings p) (rooks p)) && (to <? from)
  then castle_fix p from to (sq_of (cf1 p0) 0) C1 D1
  else p.
Definition st_promo (p : Position) (promo bb_to : N) : Position :=
  if negb (promo =? NOPIECE) then xor_piece (xor_piece p PAWN bb_to) promo bb_to else p.

Definition mv_piece (p0 : Position) (m : Mv) : N := match piece_on p0 (m_from m) with Some x => x | None => 0 end.
Definition mv_cap (p0 : Position) (m : Mv) : N := match piece_on p0 (m_to m) with Some c => c | None => 0 end.
Definition mv_is_ep (p0 : Position) (m : Mv) : bool :=
  (mv_piece p0 m =? PAWN) && negb (file_of (m_from m) =? file_of (m_to m))
  && match piece_on p0 (m_to m) with None => true | Some _ => false end.
Definition mv_vic (p0 : Position) : N := south (bit (match ep p0 with Some e => e | None => 0 end)).
Definition mv_start (u : bool) (p0 : Position) (m : Mv) : Position :=
  if u then set_hash p0 (predict_hash p0 m) else p0.

Definition mv_boards (u : bool) (p0 : Position) (m : Mv) : Position :=
  let ft := N.lor (bit (m_from m)) (bit (m_to m)) in
  st_promo (st_castle (st_ep (st_capture (st_move (mv_start u p0 m) ft (mv_piece p0 m)) (m_to m) (mv_cap p0 m))
                             (mv_is_ep p0 m) (mv_vic p0))
                      p0 (m_from m) (m_to m))
           (m_promo m) (bit (m_to m)).

Definition mv_is_cap (u : bool) (p0 : Position) (m : Mv) : bool :=
  is_set (c_them (st_move (mv_start u p0 m) (N.lor (bit (m_from m)) (bit (m_to m))) (mv_piece p0 m))) (m_to m).
Definition mv_hm (u : bool) (p0 : Position) (m : Mv) : Z :=
  let hm := (halfmoves p0 + 1)%Z in
  let hm := if mv_is_cap u p0 m then 0%Z else hm in
  if mv_piece p0 m =? PAWN then 0%Z else hm.
Definition mv_new_ep (p0 : Position) (m : Mv) : option N :=
  if (mv_piece p0 m =? PAWN) && (m_to m - m_from m =? 16) then Some (m_to m - 8) else None.
Definition mv_fm (p0 : Position) : Z := if turn p0 then (fullmoves p0 + 1)%Z else fullmoves p0.
Definition keeps_right (flag : bool) (from to ksq rsq : N) : bool :=
  flag && negb (from =? ksq) && negb (from =? rsq) && negb (to =? rsq).


(* one bit of one board *)
Definition pb (p : Position) (j s : N) : bool := is_set (get_piece p j) s.
Definition ub (p : Position) (s : N) : bool := is_set (c_us p) s.
Definition tb (p : Position) (s : N) : bool := is_set (c_them p) s.


(* what stands on a square, as tests *)
Definition holds_b (p : Position) (s : N) (t : bool) (k : N) : bool :=
  (k <=? 5) && Bool.eqb (ub p s) (negb t) && Bool.eqb (tb p s) t
  && forallb (fun j => Bool.eqb (pb p j s) (j =? k)) [0; 1; 2; 3; 4; 5].
Definition empty_b (p : Position) (s : N) : bool :=
  negb (ub p s) && negb (tb p s) && forallb (fun j => negb (pb p j s)) [0; 1; 2; 3; 4; 5].


Definition premises_b (p : Position) (m : Mv) : bool :=
  let from := m_from m in
  let to := m_to m in
  match piece_on p from with
  | None => false
  | Some k =>
    (from <? 64) && (to <? 64) && negb (from =? to)
    && holds_b p from false k
    && (empty_b p to || match piece_on p to with Some c => holds_b p to true c | None => false end)
    && (N.land (kings p) (rooks p) =? 0)
    && (negb (mv_is_ep p m)
        || (match ep p with Some e => e =? to | None => false end) && (8 <=? to) && holds_b p (to - 8) true PAWN)
    && ((m_promo m =? NOPIECE) || (k =? PAWN) && (1 <=? m_promo m) && (m_promo m <=? 4))
    && (N.land (c_us p) (c_them p) =? 0)
    && (popcount (N.land (c_us p) (kings p)) =? 1)
    && (cf0 p <=? 7) && (cf1 p <=? 7) && (cf2 p <=? 7) && (cf3 p <=? 7)
    && (negb (k =? PAWN) || (rank_of to =? rank_of from + 1) || (to =? from + 16))
  end.


(* castling: where king and rook end up (relative squares), and the executable premises of the castling theorem *)
Definition c_kt (kside : bool) : N := if kside then G1 else C1.
Definition c_rt (kside : bool) : N := if kside then F1 else D1.

Definition cpremises_b (p : Position) (m : Mv) : bool :=
  let from := m_from m in
  let to := m_to m in
  let kside := from <? to in
  (from <? 8) && (to <? 8) && negb (from =? to)
  && holds_b p from false KING && holds_b p to false ROOK
  && (to =? sq_of (if kside then cf0 p else cf1 p) 0)
  && ((c_kt kside =? from) || (c_kt kside =? to) || empty_b p (c_kt kside))
  && ((c_rt kside =? from) || (c_rt kside =? to) || empty_b p (c_rt kside))
  && (m_promo m =? NOPIECE)
  && (N.land (c_us p) (c_them p) =? 0)
  && (popcount (N.land (c_us p) (kings p)) =? 1)
  && (cf0 p <=? 7) && (cf1 p <=? 7) && (cf2 p <=? 7) && (cf3 p <=? 7).

(* every move kind *)
Definition refines_b (p : Position) (m : Mv) : bool := premises_b p m || cpremises_b p m.

(* ------------------------------------------------------------------ executable premises of the key theorems (C04) *)
Definition wf_b (p : Position) (s : N) : bool :=
  empty_b p s || existsb (fun k => holds_b p s false k || holds_b p s true k) [0; 1; 2; 3; 4; 5].
Definition sq64_list : list N := map N.of_nat (seq 0 64).
Definition bb8_b (p : Position) : bool :=
  (c_us p <? TWO64) && (c_them p <? TWO64) && (pawns p <? TWO64) && (knights p <? TWO64) && (bishops p <? TWO64)
  && (rooks p <? TWO64) && (queens p <? TWO64) && (kings p <? TWO64).
Definition implb' (a b : bool) : bool := negb a || b.

(* what the key theorems need of the position: boards below 2^64, one man at most per square, ep square on the board,
   castling rights backed by rooks, king between the rooks its rights refer to, stored key = recomputed key *)
Definition key_pos_b (p : Position) : bool :=
  bb8_b p && forallb (wf_b p) sq64_list
  && (match ep p with Some e => e <? 64 | None => true end)
  && implb' (us_ksc p) (holds_b p (sq_of (cf0 p) 0) false ROOK)
  && implb' (us_qsc p) (holds_b p (sq_of (cf1 p) 0) false ROOK)
  && implb' (them_ksc p) (tb p (sq_of (cf2 p) 7))
  && implb' (them_qsc p) (tb p (sq_of (cf3 p) 7))
  && (hash p =? calculate_hash p).

Definition key_move_b (p : Position) (m : Mv) : bool :=
  key_pos_b p
  && (premises_b p m
      || cpremises_b p m
         && (if m_from m <? m_to m then us_ksc p else us_qsc p)
         && implb' (us_ksc p) (m_from m <? sq_of (cf0 p) 0)
         && implb' (us_qsc p) (sq_of (cf1 p) 0 <? m_from m)).

(* executable premises of the attack-query theorem (C08): boards below 2^64, one man at most per square, one king a side *)
Definition attack_pre_b (p : Position) : bool :=
  bb8_b p && forallb (wf_b p) sq64_list
  && (popcount (N.land (kings p) (c_us p)) =? 1) && (popcount (N.land (kings p) (c_them p)) =? 1).

(* ------------------------------------------------------------------ executable form of the position-level premises under which every
   generated move refines the rules (C02) and keeps the key invariant (C04): proofs/GenSane.v *)
Definition good_pos_b (p : Position) : bool :=
  let ksq := lsb (N.land (kings p) (c_us p)) in
  key_pos_b p
  && (N.land (c_us p) (c_them p) =? 0)
  && (popcount (N.land (kings p) (c_us p)) =? 1)
  && (cf0 p <=? 7) && (cf1 p <=? 7) && (cf2 p <=? 7) && (cf3 p <=? 7)
  && (match ep p with
      | Some e => (8 <=? e) && (e <? 64) && empty_b p e && holds_b p (e - 8) true PAWN
      | None => true
      end)
  && implb' (us_ksc p) (ksq <? sq_of (cf0 p) 0)
  && implb' (us_qsc p) ((sq_of (cf1 p) 0 <? ksq) && (ksq <? 8)).

(* ------------------------------------------------------------------ executable form of the invariant kept by every generated legal move
   (proofs/Closure.v): good_pos_b, one enemy king, the enemy's castling rights backed by rook and king on their home rank
   with the king on the proper side of the rook, and the side not to move not in check *)
Definition inv_b (p : Position) : bool :=
  let tk := lsb (N.land (kings p) (c_them p)) in
  good_pos_b p
  && (popcount (N.land (kings p) (c_them p)) =? 1)
  && implb' (them_ksc p) (holds_b p (sq_of (cf2 p) 7) true ROOK && (56 <=? tk) && (tk <? sq_of (cf2 p) 7))
  && implb' (them_qsc p) (holds_b p (sq_of (cf3 p) 7) true ROOK && (sq_of (cf3 p) 7 <? tk))
  && negb (in_check_them p).

(* the invariant the search relies on: inv_b and at most 16 men a side (kept by every generated legal move and null move:
   proofs/MenCount.v) *)
Definition invs_b (p : Position) : bool :=
  inv_b p && (popcount (c_us p) <=? 16) && (popcount (c_them p) <=? 16).

(* ------------------------------------------------------------------ en-passant consistency (proofs/EpRetro.v): the double push the
   en-passant square records can have been the last move -- the square the pawn came from is vacant and, with the pawn put
   back there, the side to move is not in check (before the push it was the other side's turn).  Kept by every generated
   move and null move; the generator relies on it (an en-passant capture is not tested for an attack uncovered through the
   captured pawn's square). *)
Definition unpush (p : Position) (e : N) : Position :=
  let bb := N.lor (bit (e - 8)) (bit (e + 8)) in
  xor_piece (xor_them p bb) PAWN bb.
Definition ep_ok_b (p : Position) : bool :=
  match ep p with
  | None => true
  | Some e => negb (is_set (occupied p) (e + 8))
              && negb (is_sq_attacked (unpush p e) (lsb (N.land (kings p) (c_us p))) false)
  end.
Definition invr_b (p : Position) : bool := invs_b p && ep_ok_b p.
