(* Abstraction from the engine's side-relative bitboard Position to the 8x8 specification state, the
   encoding of specification moves as engine moves, and the domain D of DESIGN.md section 4 as
   executable predicates. *)
From Coq Require Import NArith ZArith List Bool.
From Rawr Require Import Consts Bits Magic Position MoveGen MakeMove Rules.
Import ListNotations.
Local Open Scope N_scope.

Definition kind_of_N (k : N) : kind :=
  match k with 0 => Pawn | 1 => Knight | 2 => Bishop | 3 => Rook | 4 => Queen | _ => King end.
Definition N_of_kind (k : kind) : N :=
  match k with Pawn => 0 | Knight => 1 | Bishop => 2 | Rook => 3 | Queen => 4 | King => 5 end.
Definition colour_of_turn (t : bool) : colour := if t then Black else White.

(* absolute square a (0..63, a1 = 0) as stored in p: flipped when Black is to move *)
Definition rel_sq (p : Position) (a : N) : N := if turn p then flip_sq a else a.

Definition man_at (p : Position) (a : N) : option man :=
  let s := rel_sq p a in
  match piece_on p s with
  | None => None
  | Some k =>
    if is_set (c_us p) s then Some (colour_of_turn (turn p), kind_of_N k)
    else if is_set (c_them p) s then Some (colour_of_turn (negb (turn p)), kind_of_N k)
    else None
  end.

Definition board_of (p : Position) : board := map (fun i => man_at p (N.of_nat i)) (seq 0 64).

Definition right_of (flag : bool) (file : N) : option Z := if flag then Some (Z.of_N file) else None.

Definition abs_state (p : Position) : sstate :=
  let w := negb (turn p) in       (* White to move: "us" is White *)
  mkS (board_of p) (colour_of_turn (turn p))
      (if w then right_of (us_ksc p) (cf0 p) else right_of (them_ksc p) (cf2 p))
      (if w then right_of (us_qsc p) (cf1 p) else right_of (them_qsc p) (cf3 p))
      (if w then right_of (them_ksc p) (cf2 p) else right_of (us_ksc p) (cf0 p))
      (if w then right_of (them_qsc p) (cf3 p) else right_of (us_qsc p) (cf1 p))
      (match ep p with
       | Some e => let a := rel_sq p e in Some (Z.of_N (a mod 8), Z.of_N (a / 8))
       | None => None end)
      (halfmoves p) (fullmoves p).

(* a specification move as the engine writes it: side-relative squares, castling = king takes rook *)
Definition enc (p : Position) (m : smove) : Mv :=
  let a_from := Z.to_N (8 * mr m + mf m) in
  let a_to := Z.to_N (8 * tr m + tf m) in
  mkMv (rel_sq p a_from) (rel_sq p a_to)
       (match promo m with Some k => N_of_kind k | None => NOPIECE end).
Definition dec (p : Position) (m : Mv) : smove :=
  let a_from := rel_sq p (m_from m) in
  let a_to := rel_sq p (m_to m) in
  mkM (Z.of_N (a_from mod 8)) (Z.of_N (a_from / 8)) (Z.of_N (a_to mod 8)) (Z.of_N (a_to / 8))
      (if m_promo m =? NOPIECE then None else Some (kind_of_N (m_promo m))).

Definition spec_legal (p : Position) : list Mv := map (enc p) (legal (abs_state p)).

(* is the relative square s attacked by us / by them, according to the rules *)
Definition spec_attacked (p : Position) (s : N) (by_us : bool) : bool :=
  let a := rel_sq p s in
  attacked (board_of p) (colour_of_turn (if by_us then turn p else negb (turn p))) (Z.of_N (a mod 8)) (Z.of_N (a / 8)).

(* ------------------------------------------------------------------ the domain D, executable *)
Definition lt64 (x : N) : bool := x <? TWO64.

Definition consistent (p : Position) : bool :=
  lt64 (c_us p) && lt64 (c_them p) && lt64 (pawns p) && lt64 (knights p) && lt64 (bishops p)
  && lt64 (rooks p) && lt64 (queens p) && lt64 (kings p)
  && (N.lor (c_us p) (c_them p) =?
      N.lor (N.lor (N.lor (pawns p) (knights p)) (N.lor (bishops p) (rooks p))) (N.lor (queens p) (kings p))).

Definition rights_geometry (p : Position) : bool :=
  let kf_us := file_of (lsb (N.land (c_us p) (kings p))) in
  let kf_them := file_of (lsb (N.land (c_them p) (kings p))) in
  (cf0 p <=? 7) && (cf1 p <=? 7) && (cf2 p <=? 7) && (cf3 p <=? 7)
  && (negb (us_ksc p) || (kf_us <? cf0 p)) && (negb (us_qsc p) || (cf1 p <? kf_us))
  && (negb (them_ksc p) || (kf_them <? cf2 p)) && (negb (them_qsc p) || (cf3 p <? kf_them)).

(* Valid: the structural invariants (validate's tests plus what it does not test) *)
Definition valid_b (p : Position) : bool :=
  match validate p with None => true | Some _ => false end
  && consistent p && rights_geometry p && (hash p =? calculate_hash p)
  && (match ep p with Some e => e <? 64 | None => true end).

(* EpRetro: a double push can have been the last move *)
Definition ep_retro (p : Position) : bool :=
  match ep p with
  | None => true
  | Some e =>
    let origin := e + 8 in         (* relative: their pawn came from the square north of the ep square *)
    negb (is_set (occupied p) origin)
    && match king_sq (board_of p) (colour_of_turn (turn p)) with
       | None => false
       | Some (kf, kr) =>
         let a_now := rel_sq p (e - 8) in
         let a_org := rel_sq p origin in
         let b := board_of p in
         let them := colour_of_turn (negb (turn p)) in
         let b' := put (put b (Z.of_N (a_now mod 8)) (Z.of_N (a_now / 8)) None)
                       (Z.of_N (a_org mod 8)) (Z.of_N (a_org / 8)) (Some (them, Pawn)) in
         negb (attacked b' them kf kr)
       end
  end.

Definition material_side (p : Position) (side : N) : bool :=
  let cnt (bb : N) : N := popcount (N.land bb side) in
  let ex (bb : N) (base : N) : N := cnt bb - base in
  (cnt (pawns p) <=? 8) && (popcount side <=? 16)
  && (ex (knights p) 2 + ex (bishops p) 2 + ex (rooks p) 2 + ex (queens p) 1 + cnt (pawns p) <=? 8).

Definition material (p : Position) : bool := material_side p (c_us p) && material_side p (c_them p).

Definition in_D (p : Position) : bool := valid_b p && ep_retro p && material p.
