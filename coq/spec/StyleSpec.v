(* C20, game layer: the notions the theorems about model/StyleGame.v are stated with.
   - the counting part of the statistics invariant (everything of StyleFacts.SInv that does not mention the game count being
     positive or the early-move total), kept by every single move event and by the end of a game;
   - the pawns of the analysed side seen from that side, and the potential that bounds the weighted early pawn pushes:
     a pawn standing on rank index r (own side's view, start rank = 1) has been paid for: the pushes that brought it
     there weigh, in fifths, at most 31 per push less cmin5 r.  One push costs 5 * weight(target rank) and moves the
     potential by cmin5(target) - cmin5(origin); the sum is at most 31 in each of the seven possible steps
     (1->2, 1->3, 2->3, 3->4, 4->5, 5->6, 6->7 = promotion, the pawn disappears), which is the tool's own constant
     sum(weights[3:]) / len(weights[3:]) = 31/5. *)
From Coq Require Import NArith ZArith QArith List Bool.
From Rawr Require Import Consts Bits Magic Position MoveGen MakeMove MakeStages Style StyleGame.
Import ListNotations.

(* the event of a move as the tool can see it: distance and rank are board coordinates *)
Definition EvOK (e : MoveEv) : Prop := (e_dist e < 8)%nat /\ (e_rank e < 8)%nat.

Local Open Scope N_scope.

(* the pawns of the analysed side, on squares named from that side (a1 = 0 for White, a8 = 0 for Black) *)
Definition our_pawn (side : bool) (p : Position) (a : N) : bool :=
  if Bool.eqb (turn p) side then is_set (N.land (pawns p) (c_us p)) a
  else is_set (N.land (pawns p) (c_them p)) (N.lxor a 56).

Definition cmin5 (r : N) : Z :=
  match r with 2 => 26%Z | 3 => 26%Z | 4 => 47%Z | 5 => 58%Z | 6 => 49%Z | _ => 0%Z end.
Definition weightZ (r : N) : Z :=
  match r with 2 => 1%Z | 3 => 1%Z | 4 => 2%Z | 5 => 4%Z | 6 => 8%Z | 7 => 16%Z | _ => 0%Z end.

Definition phi_of (f : N -> bool) : Z :=
  fold_right (fun a acc => ((if f a then cmin5 (a / 8) else 0) + acc)%Z) 0%Z sq64_list.
Definition phi (side : bool) (p : Position) : Z := phi_of (our_pawn side p).
