(* Exact game-tree values the searches are compared with (C19, C12). *)
From Coq Require Import NArith ZArith List Bool.
From Rawr Require Import Consts Bits Magic Position MoveGen MakeMove Eval Rules Abs.
Import ListNotations.
Local Open Scope Z_scope.

(* capture-only game: the side to move may stand pat (static evaluation) or play any legal capture;
   unpruned negamax value.  Fuel: every capture removes a man, 32 suffices; None = out of fuel *)
Fixpoint qvalue (fuel : nat) (p : Position) : option Z :=
  match fuel with
  | O => None
  | S f =>
    (fix go (ms : list Mv) (acc : Z) : option Z :=
       match ms with
       | [] => Some acc
       | m :: ms' => match qvalue f (makemove false p m) with
                     | None => None
                     | Some v => go ms' (Z.max acc (- v))
                     end
       end) (legal_captures p) (eval p)
  end.

(* the same value with a node budget, for the correspondence run (None = budget or fuel exhausted) *)
Fixpoint qvalue_b (fuel : nat) (p : Position) (budget : N) : option (Z * N) :=
  match fuel with
  | O => None
  | S f =>
    fold_left (fun acc m =>
      match acc with
      | Some (a, b) =>
        if (b =? 0)%N then None else
        match qvalue_b f (makemove false p m) (N.pred b) with
        | Some (v, b') => Some (Z.max a (- v), b')
        | None => None
        end
      | None => None
      end) (legal_captures p) (Some (eval p, budget))
  end.

(* moves of the rules that give checkmate at once *)
Definition mating_moves (p : Position) : list Mv :=
  let s := abs_state p in
  map (enc p) (filter (fun m => checkmate (apply s m)) (legal s)).
