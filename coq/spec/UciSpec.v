(* What a move token denotes (C05) and how a move is written (C09), on the 8x8 specification. *)
From Coq Require Import NArith ZArith List Bool.
From Rawr Require Import Rules.
Import ListNotations.
Local Open Scope Z_scope.

Definition sstr := list N.
Fixpoint sstr_eqb (a b : sstr) : bool :=
  match a, b with
  | [], [] => true
  | x :: a', y :: b' => (x =? y)%N && sstr_eqb a' b'
  | _, _ => false
  end.

Definition sq_name (f r : Z) : sstr := [(97 + Z.to_N f)%N; (49 + Z.to_N r)%N].
Definition promo_letter (k : kind) : sstr :=
  match k with Knight => [110%N] | Bishop => [98%N] | Rook => [114%N] | Queen => [113%N] | _ => [] end.

(* origin and destination in absolute coordinates, lower-case promotion letter; castling is written as the
   king's two-square-style move to the g/c file in standard mode, as king-takes-rook in Chess960 mode *)
Definition move_str (frc : bool) (s : sstate) (m : smove) : sstr :=
  let tf' := if is_castle s m && negb frc then (if mf m <? tf m then 6 else 2) else tf m in
  sq_name (mf m) (mr m) ++ sq_name tf' (tr m) ++ match promo m with Some k => promo_letter k | None => [] end.

Definition E1G1 : sstr := [101; 49; 103; 49]%N.
Definition E1C1 : sstr := [101; 49; 99; 49]%N.
Definition E8G8 : sstr := [101; 56; 103; 56]%N.
Definition E8C8 : sstr := [101; 56; 99; 56]%N.

(* the legal move a token denotes, if any *)
Definition denotes (frc : bool) (s : sstate) (tok : sstr) : option smove :=
  match find (fun m => sstr_eqb (move_str frc s m) tok) (legal s) with
  | Some m => Some m
  | None =>
    let c := s_turn s in
    let h := home c in
    let kside := match c with White => sstr_eqb tok E1G1 | Black => sstr_eqb tok E8G8 end in
    let qside := match c with White => sstr_eqb tok E1C1 | Black => sstr_eqb tok E8C8 end in
    if is_man c King (at_ (s_board s) 4 h) && (kside || qside) then
      find (fun m => is_castle s m && (mf m =? 4) && (mr m =? h) && (if kside then 4 <? tf m else tf m <? 4)) (legal s)
    else None
  end.

(* the game a token list spells out: unknown tokens are skipped; the list of positions reached *)
Fixpoint play_tokens (frc : bool) (s : sstate) (toks : list sstr) (acc : list sstate) (unknown : list sstr)
  : sstate * list sstate * list sstr :=
  match toks with
  | [] => (s, rev acc, rev unknown)
  | t :: rest =>
    match denotes frc s t with
    | Some m => let s' := apply s m in play_tokens frc s' rest (s' :: acc) unknown
    | None => play_tokens frc s rest acc (t :: unknown)
    end
  end.
