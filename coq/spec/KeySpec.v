(* The position key as a function of the 8x8 specification state alone (C04): XOR of one key per man on its absolute
   square, one per en-passant file, one per castling right held, one when Black is to move. *)
From Coq Require Import NArith ZArith List Bool.
From Rawr Require Import Consts Bits Magic Position MoveGen MakeMove Rules Abs.
Import ListNotations.
Local Open Scope N_scope.

Definition is_black (c : colour) : bool := match c with Black => true | White => false end.
Definition mkey (o : option man) (a : N) : N :=
  match o with None => 0 | Some (c, k) => key (is_black c) (N_of_kind k) a end.
Fixpoint bsum (b : board) (i : N) : N :=
  match b with [] => 0 | x :: t => N.lxor (mkey x i) (bsum t (N.succ i)) end.
Definition has (o : option Z) : bool := match o with Some _ => true | None => false end.

Definition spec_key (s : sstate) : N :=
  let h := bsum (s_board s) 0 in
  let h := match s_ep s with Some (f, _) => N.lxor h (nthN KEYS_EP (Z.to_N f) 0) | None => h end in
  let h := xor_if (has (s_wk s)) (castle_key false false) h in
  let h := xor_if (has (s_wq s)) (castle_key false true) h in
  let h := xor_if (has (s_bk s)) (castle_key true false) h in
  let h := xor_if (has (s_bq s)) (castle_key true true) h in
  xor_if (is_black (s_turn s)) KEYS_TURN h.
