(* C18 -- the transposition table behaves as a faithful always-replace cache.
   Statements only; proofs in proofs/TTFacts.v.  T, dflt, teqb, esize are arbitrary (the engine uses
   TTEntry / 24 bytes, the tests u64 / i32). *)
From Coq Require Import NArith ZArith List Bool FMapPositive.
From Rawr Require Import Consts Bits TT TTFacts.
Import ListNotations.
Local Open Scope N_scope.

(* every finite sequence of store / lookup / clear / resize / fill-indicator / length operations gives the
   outputs of the specification "per slot, the last value stored there since the last clear, cut by resize" *)
Theorem C18_tt_refines : forall (T : Type) (dflt : T) (teqb : T -> T -> bool) (esize : N) (ops : list (op T)),
  R T dflt (fst (run T dflt teqb esize ops)) (fst (sp_run T dflt teqb esize ops))
  /\ snd (run T dflt teqb esize ops) = snd (sp_run T dflt teqb esize ops).
Proof. exact tt_refines. Qed.

Theorem C18_poll_after_add : forall (T : Type) (dflt : T) (t : Table T) (k : N) (e : T) (t' : Table T),
  t_add T t k e = Some t' -> t_poll T dflt t' k = Some e.
Proof. exact poll_after_add. Qed.

Theorem C18_poll_other_slot : forall (T : Type) (dflt : T) (t : Table T) (k : N) (e : T) (t' : Table T) (k' : N),
  t_add T t k e = Some t' -> k' mod t_len t <> k mod t_len t -> t_poll T dflt t' k' = t_poll T dflt t k'.
Proof. exact poll_other_slot. Qed.

Theorem C18_clear_empties : forall (T : Type) (dflt : T) (t : Table T) (i : N),
  slot T dflt (t_clear T t) i = dflt /\ t_len (t_clear T t) = t_len t.
Proof. exact clear_empties. Qed.

Theorem C18_resize_len : forall (T : Type) (dflt : T) (esize : N) (t : Table T) (mb : N),
  t_len (t_resize T dflt esize t mb) = (mb * 1024 * 1024) / esize.
Proof. exact resize_len. Qed.

Theorem C18_resize_keeps_provenance : forall (T : Type) (dflt : T) (esize : N) (t : Table T) (mb i : N),
  slot T dflt (t_resize T dflt esize t mb) i = dflt
  \/ (i < t_len (t_resize T dflt esize t mb) /\ slot T dflt (t_resize T dflt esize t mb) i = slot T dflt t i).
Proof. exact resize_keeps_provenance. Qed.

(* entries are never invented or torn: a slot holds the default or an entry some earlier store wrote, whole *)
Theorem C18_never_invented : forall (T : Type) (dflt : T) (teqb : T -> T -> bool) (esize : N) (ops : list (op T)) (i : N),
  let t := fst (run T dflt teqb esize ops) in slot T dflt t i = dflt \/ In (slot T dflt t i) (stored T ops).
Proof. exact never_invented. Qed.

Theorem C18_hashfull_range : forall (T : Type) (dflt : T) (teqb : T -> T -> bool) (t : Table T) (n : Z),
  t_hashfull T dflt teqb t = Some n -> (0 <= n <= 1000)%Z.
Proof. exact hashfull_range. Qed.

(* non-vacuity: a concrete run with a collision, a clear and a resize *)
Example C18_example :
  snd (run N 0 N.eqb 8 [OResize N 1; OAdd N 5 77; OAdd N 131077 9; OPoll N 5; OFull N; OClear N; OPoll N 5; OLen N])
  = [RUnit N; RUnit N; RUnit N; REntry N 9; RFull N (Some 1%Z); RUnit N; REntry N 0; RLen N 131072].
Proof. vm_compute. reflexivity. Qed.

Print Assumptions C18_tt_refines.
Print Assumptions C18_poll_after_add.
Print Assumptions C18_poll_other_slot.
Print Assumptions C18_clear_empties.
Print Assumptions C18_resize_len.
Print Assumptions C18_resize_keeps_provenance.
Print Assumptions C18_never_invented.
Print Assumptions C18_hashfull_range.
