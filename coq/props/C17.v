(* C17 -- static evaluation: perspective-antisymmetric, colour-blind, reads the boards only.
   The position is stored from the mover's point of view, so "colours swapped and board mirrored top to bottom"
   (with the other side to move) is the SAME eight bitboards with the turn flag negated: colour-blindness is the
   turn-independence contained in C17_eval_reads_boards_only.  The numeric bound is proved from the tables the
   translator reads out of eval.rs / pst.rs (every entry within +-200, piece values within 0..900), at most 16 men
   a side, one kind per square and the phase formula: |eval| <= 400000 < MATE_SCORE - MAX_DEPTH = 999872. *)
From Coq Require Import NArith ZArith List Bool.
From Rawr Require Import Consts Bits Magic Position Eval MoveGen MakeMove EvalFacts Abs BoundFacts Closure MenCount Closure EpRetro GenLegal Uci SessionInv SessionKeys.
Local Open Scope Z_scope.

(* move counters, castling rights and files, en-passant state, key, Chess960 flag and turn flag are never read *)
Theorem C17_eval_reads_boards_only : forall p q, same_boards p q -> eval p = eval q.
Proof. exact eval_reads_boards_only. Qed.

(* the same board with the turn passed (flip = the opponent's point of view) evaluates to the exact negative,
   for all bitboards below 2^64 -- Rust's truncating division is odd, which is what makes this exact *)
Theorem C17_eval_antisym : forall p, BB p -> eval (flip p) = - eval p.
Proof. exact eval_antisym. Qed.

Example C17_example : eval (flip startpos) = - eval startpos /\ BB startpos.
Proof. split; [vm_compute; reflexivity|]. unfold BB. vm_compute. repeat split. Qed.

(* strictly inside the range reserved for mate scores, on every position of the domain D ... *)
Theorem C17_eval_inside_mate_range : forall p, in_D p = true -> - (MATE_SCORE - MAX_DEPTH) < eval p < MATE_SCORE - MAX_DEPTH.
Proof. exact eval_bounded_on_D. Qed.

(* ... and more generally whenever the boards are below 2^64, hold one kind per square, the two colour boards are
   disjoint and cover exactly the piece boards, and neither side has more than 16 men *)
Theorem C17_eval_bounded : forall p, Men16 p -> Z.abs (eval p) <= 400000.
Proof. exact eval_bounded. Qed.

Example C17_bound_example : in_D startpos = true /\ in_D (MakeMove.makenull startpos) = true.
Proof. split; vm_compute; reflexivity. Qed.

(* the bound holds on every position reached by generated legal moves from a position satisfying the invariant: neither
   side's number of men ever grows (MenCount.v), so `Men16` is kept *)
Theorem C17_eval_bounded_along_play : forall u p m, Inv16 p -> In m (legal_moves p) -> in_check_them (makemove u p m) = false ->
  Inv16 (makemove u p m) /\ Z.abs (eval (makemove u p m)) <= 400000.
Proof. intros u p m I Hm Hl. pose proof (inv16_step u p m I Hm Hl) as I'. split; [exact I'|exact (inv16_eval _ I')]. Qed.

(* ... and with no legality premise: every generated move keeps `Inv16R` (= Inv16 and the en-passant consistency) *)
Theorem C17_eval_bounded_after_every_generated_move : forall u p m, Inv16R p -> In m (legal_moves p) ->
  Inv16R (makemove u p m) /\ Z.abs (eval (makemove u p m)) <= 400000.
Proof.
  intros u p m I Hm. pose proof (gen_legal u p m (i16_inv p (i16r p I)) (i16r_ep p I) Hm) as Hl.
  pose proof (inv16R_step u p m I Hm Hl) as I'. split; [exact I'|exact (inv16_eval _ (i16r _ I'))].
Qed.

(* at the level of the command loop: in every state reached along any script (position lines within D) the evaluation is within
   the bound that keeps it clear of the mate range *)
Theorem C17_eval_bounded_in_every_session_state : forall mode lines s s',
  SessInv s -> script_dom mode s lines -> Reached mode s lines s' -> (Z.abs (eval (u_pos s')) <= 400000)%Z.
Proof. exact session_eval_bounded. Qed.

Print Assumptions C17_eval_reads_boards_only.
Print Assumptions C17_eval_inside_mate_range.
Print Assumptions C17_eval_bounded.
Print Assumptions C17_eval_antisym.
Print Assumptions C17_eval_bounded_along_play.
Print Assumptions C17_eval_bounded_after_every_generated_move.
Print Assumptions C17_eval_bounded_in_every_session_state.
