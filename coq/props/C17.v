(* C17 -- static evaluation: perspective-antisymmetric, colour-blind, reads the boards only.
   The position is stored from the mover's point of view, so "colours swapped and board mirrored top to bottom"
   (with the other side to move) is the SAME eight bitboards with the turn flag negated: colour-blindness is the
   turn-independence contained in C17_eval_reads_boards_only.  The numeric bound (|eval| < MATE_SCORE - MAX_DEPTH
   for at most 16 men per side) is checked by the correspondence run on every generated position, not proved. *)
From Coq Require Import NArith ZArith List Bool.
From Rawr Require Import Consts Bits Magic Position Eval EvalFacts.
Local Open Scope Z_scope.

(* move counters, castling rights and files, en-passant state, key, Chess960 flag and turn flag are never read *)
Theorem C17_eval_reads_boards_only : forall p q, same_boards p q -> eval p = eval q.
Proof. exact eval_reads_boards_only. Qed.

(* the same board with the turn passed (flip = the opponent's point of view) evaluates to the exact negative,
   for all bitboards below 2^64 -- Rust's truncating division is odd, which is what makes this exact *)
Theorem C17_eval_antisym : forall p, BB p -> eval (flip p) = - eval p.
Proof. exact eval_antisym. Qed.

Example C17_example : eval (flip startpos) = - eval startpos /\ BB startpos.
Proof. split; [vm_compute; reflexivity|]. unfold BB. vm_compute. repeat split. Qed.

Print Assumptions C17_eval_reads_boards_only.
Print Assumptions C17_eval_antisym.
