(* C05 -- `position ... moves`: statements about the model of uci/moves.rs and uci/position.rs (Uci.v).
   PARTIAL: that find_move coincides with the specification's `denotes` (spec/UciSpec.v) is checked by the
   correspondence run, not proved. *)
From Coq Require Import NArith ZArith List Bool String.
From Rawr Require Import Consts Bits Magic Position MoveGen MakeMove Fen Eval TT Search Uci UciFacts.
Import ListNotations.
Local Open Scope N_scope.

(* the recorded history holds exactly one key per position reached, in order, and the final position is the last
   one reached; tokens that denote nothing contribute nothing *)
Theorem C05_moves_history : forall toks p h out,
  let '(p', h', _) := moves_cmd toks p h out in
  h' = rev (map hash (positions_reached toks p)) ++ h /\ p' = last (positions_reached toks p) p.
Proof. exact moves_history. Qed.

Theorem C05_unknown_token_is_noop : forall p h t,
  find_move p t = None -> moves_cmd [t] p h [] = (p, h, [lit "info string unknown move " ++ t]).
Proof. exact unknown_token_is_noop. Qed.

(* whatever a token is resolved to -- in either notation or through a conventional castling string -- is legal *)
Theorem C05_only_legal_moves_are_played : forall p t m, find_move p t = Some m -> In m (legal_moves p).
Proof. exact find_move_legal. Qed.

Print Assumptions C05_moves_history.
Print Assumptions C05_unknown_token_is_noop.
Print Assumptions C05_only_legal_moves_are_played.
