(* C05 -- `position ... moves`: statements about the model of uci/moves.rs and uci/position.rs (Uci.v).
   PARTIAL: proved relative to the engine's own list of generated moves -- a token is resolved to a move iff that move
   is generated and prints as the token (the printed string being the specification's notation, C09), or the token is
   a conventional castling string for the mover and the e-file king-takes-rook move is generated.  That the generated
   list is the rules' list of legal moves (so that find_move = `denotes` of spec/UciSpec.v) is C01's open half and is
   checked by the correspondence run. *)
From Coq Require Import NArith ZArith List Bool String.
From Rawr Require Import Consts Bits Magic Position MoveGen MakeMove MakeStages Fen Eval TT Search Uci UciFacts NotationMoves.
Import ListNotations.
Local Open Scope N_scope.

(* the recorded history holds exactly one key per position reached, in order, and the final position is the last
   one reached; tokens that denote nothing contribute nothing *)
Theorem C05_moves_history : forall toks p h out,
  let '(p', h', _) := moves_cmd toks p h out in
  h' = rev (map hash (positions_reached toks p)) ++ h /\ p' = last (positions_reached toks p) p.
Proof. exact moves_history. Qed.

Theorem C05_unknown_token_is_noop : forall p h t,
  find_move p t = None -> moves_cmd [t] p h [] = (p, h, [lit "info string unknown move " ++ t]).
Proof. exact unknown_token_is_noop. Qed.

(* whatever a token is resolved to -- in either notation or through a conventional castling string -- is legal *)
Theorem C05_only_legal_moves_are_played : forall p t m, find_move p t = Some m -> In m (legal_moves p).
Proof. exact find_move_legal. Qed.

(* what the matcher accepts: either a generated move that prints as the token, or the conventional castling string of
   the mover's side resolved to the generated king-takes-rook move from the e-file; nothing else *)
Theorem C05_matcher_sound : forall p t m, find_move p t = Some m ->
  (In m (legal_moves p) /\ to_uci p m = t) \/ conventional p t m.
Proof. exact find_move_sound. Qed.
Theorem C05_matcher_rejects_everything_else : forall p t,
  (forall m, In m (legal_moves p) -> to_uci p m <> t) -> (forall m, ~ conventional p t m) -> find_move p t = None.
Proof. exact find_move_none. Qed.
(* and it accepts every generated move under its own printed name, resolving it to that very move *)
Theorem C05_matcher_complete : forall p, good_pos_b p = true -> std_geo p ->
  forall m, In m (legal_moves p) -> find_move p (to_uci p m) = Some m.
Proof. intros p H SG. exact (proj2 (proj2 (good_pos_notation p H SG))). Qed.

Print Assumptions C05_moves_history.
Print Assumptions C05_unknown_token_is_noop.
Print Assumptions C05_only_legal_moves_are_played.
Print Assumptions C05_matcher_sound.
Print Assumptions C05_matcher_rejects_everything_else.
Print Assumptions C05_matcher_complete.
