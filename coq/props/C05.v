(* C05 -- `position ... moves`: statements about the model of uci/moves.rs and uci/position.rs (Uci.v).
   PROVED on the model (C05_moves_follow_the_specification): for every position satisfying the invariant, the en-passant
   consistency and the geometry condition `TokGeo` (standard mode: a side with a castling right has its king on the e-file;
   queen-side castle file west of the king-side one -- true of every position the parser builds and kept by every move), and every
   token list, the command plays exactly the tokens that DENOTE a legal move under spec/UciSpec.v (printed name in the active
   notation, or the conventional e1g1/e1c1/e8g8/e8c8 strings when that castling move is legal), in order, reports every other
   token as unknown and leaves the position unchanged for it; the history holds one key per position reached.  This rests on C01
   (generated moves = the rules' legal moves) and C09 (printed names are exact and unambiguous).  `alias_geo`/`TokGeo` is needed:
   without it the matcher's castling alias can resolve to the other wing's castling move (C05_alias_geometry_is_needed: a
   position no FEN produces -- both recorded castle files equal). *)
From Coq Require Import NArith ZArith List Bool String.
From Rawr Require Import Consts Bits Magic Position MoveGen MakeMove MakeStages Fen Eval TT Search Uci UciFacts NotationMoves Rules Abs UciSpec Closure EpRetro TokenSpec.
Import ListNotations.
Local Open Scope N_scope.

(* the recorded history holds exactly one key per position reached, in order, and the final position is the last
   one reached; tokens that denote nothing contribute nothing *)
Theorem C05_moves_history : forall toks p h out,
  let '(p', h', _) := moves_cmd toks p h out in
  h' = rev (map hash (positions_reached toks p)) ++ h /\ p' = last (positions_reached toks p) p.
Proof. exact moves_history. Qed.

Theorem C05_unknown_token_is_noop : forall p h t,
  find_move p t = None -> moves_cmd [t] p h [] = (p, h, [lit "info string unknown move " ++ t]).
Proof. exact unknown_token_is_noop. Qed.

(* whatever a token is resolved to -- in either notation or through a conventional castling string -- is legal *)
Theorem C05_only_legal_moves_are_played : forall p t m, find_move p t = Some m -> In m (legal_moves p).
Proof. exact find_move_legal. Qed.

(* what the matcher accepts: either a generated move that prints as the token, or the conventional castling string of
   the mover's side resolved to the generated king-takes-rook move from the e-file; nothing else *)
Theorem C05_matcher_sound : forall p t m, find_move p t = Some m ->
  (In m (legal_moves p) /\ to_uci p m = t) \/ conventional p t m.
Proof. exact find_move_sound. Qed.
Theorem C05_matcher_rejects_everything_else : forall p t,
  (forall m, In m (legal_moves p) -> to_uci p m <> t) -> (forall m, ~ conventional p t m) -> find_move p t = None.
Proof. exact find_move_none. Qed.
(* and it accepts every generated move under its own printed name, resolving it to that very move *)
Theorem C05_matcher_complete : forall p, good_pos_b p = true -> std_geo p ->
  forall m, In m (legal_moves p) -> find_move p (to_uci p m) = Some m.
Proof. intros p H SG. exact (proj2 (proj2 (good_pos_notation p H SG))). Qed.

(* ---- the matcher is the specification's denotation, and the command follows the specification's play *)
Theorem C05_matcher_is_the_denotation : forall p, Inv0 p -> ep_ok_b p = true -> std_geo p -> forall t, alias_geo p ->
  denotes (is_frc p) (abs_state p) t = option_map (dec p) (find_move p t).
Proof. exact denotes_find_move. Qed.
Theorem C05_moves_follow_the_specification : forall toks p h, Inv0 p -> ep_ok_b p = true -> TokGeo p ->
  let '(p', _, out) := moves_cmd toks p h [] in
  play_tokens (is_frc p) (abs_state p) toks [] []
    = (abs_state p', map abs_state (positions_reached toks p), unknown_tokens toks p)
  /\ out = map unknown_msg (unknown_tokens toks p).
Proof. exact moves_cmd_follows_play_tokens. Qed.
Theorem C05_geometry_is_kept : forall u p m, Inv0 p -> In m (legal_moves p) -> TokGeo p -> TokGeo (makemove u p m).
Proof. exact tokgeo_step. Qed.
Theorem C05_alias_geometry_is_needed :
  Inv0 alias_witness /\ ep_ok_b alias_witness = true /\ std_geo alias_witness /\ ~ alias_geo alias_witness
  /\ find_move alias_witness (lit "e1g1") = Some (mkMv E1 0 NOPIECE)
  /\ denotes (is_frc alias_witness) (abs_state alias_witness) (lit "e1g1") = None.
Proof. exact alias_geo_needed. Qed.
Example C05_geometry_startpos : TokGeo startpos.
Proof. exact tokgeo_startpos. Qed.

Print Assumptions C05_moves_history.
Print Assumptions C05_unknown_token_is_noop.
Print Assumptions C05_only_legal_moves_are_played.
Print Assumptions C05_matcher_sound.
Print Assumptions C05_matcher_rejects_everything_else.
Print Assumptions C05_matcher_complete.
Print Assumptions C05_matcher_is_the_denotation.
Print Assumptions C05_moves_follow_the_specification.
Print Assumptions C05_geometry_is_kept.
Print Assumptions C05_alias_geometry_is_needed.
