(* C14 -- limits and coherence of the reported result, on the model of search/root.rs (Search.v).
   The wall-clock clause (movetime / clocks) is a measurement in the correspondence run, not a theorem; a depth
   limit >= MAX_DEPTH is the recorded known finding (the loop below stops at MAX_DEPTH - 1). *)
From Coq Require Import NArith ZArith List Bool.
From Rawr Require Import Consts Bits Magic Position MoveGen MakeMove Eval TT Search MakeStages SearchFacts Closure MenCount EpRetro SearchBound GenLegal SearchFinal.
Import ListNotations.
Local Open Scope Z_scope.

(* iterations are reported in order 1, 2, 3, ... without gaps; the move played is the first move of the last
   reported principal variation (or nothing was found at all); the table keeps its size *)
Theorem C14_iterations_in_order : forall (stopf : Stats -> bool) fuel p hist tt r,
  root stopf fuel p hist tt = Some r ->
  consecutive 1 (rr_infos r)
  /\ (rr_best r = None \/ rr_best r = match rev (rr_infos r) with [] => None | i :: _ => Some (i_pv i) end)
  /\ t_len (ss_tt (rr_state r)) = t_len tt.
Proof. exact root_iterations_in_order. Qed.

(* node limit N: no iteration after the first is reported once N nodes have been spent *)
Theorem C14_nodes_limit_honoured : forall fuel p hist tt n r,
  root (stop_of (LNodes n)) fuel p hist tt = Some r ->
  forall i, In i (rr_infos r) -> 1 < i_depth i -> (i_nodes i < n)%N.
Proof. exact nodes_limit_honoured. Qed.

(* depth limit D: nothing deeper than D is reported *)
Theorem C14_depth_limit_honoured : forall fuel p hist tt d r,
  root (stop_of (LDepth d)) fuel p hist tt = Some r ->
  forall i, In i (rr_infos r) -> 1 < i_depth i -> i_depth i <= d.
Proof. exact depth_limit_honoured. Qed.

(* every reported score lies within the mate bounds, hence strictly inside (-INF, INF), and the table the search leaves
   behind satisfies the table invariant again -- for every limit, history and admissible table (SearchBound.v; no
   hypothesis left: GenLegal.v) *)
Theorem C14_scores_within_the_mate_bounds : forall (stopf : Stats -> bool) fuel p hist tt r,
  InvSR p -> TBnd tt -> Z.of_nat fuel <= 2 * MATE_SCORE ->
  root stopf fuel p hist tt = Some r ->
  (forall i, In i (rr_infos r) -> - MATE_SCORE <= i_score i <= MATE_SCORE /\ - INF < i_score i < INF) /\ TBnd (ss_tt (rr_state r)).
Proof. exact search_scores_within_the_mate_bounds. Qed.

(* the same without "modulo fuel": the search returns (SearchTotal.v) and the result, the same for every sufficient fuel, has its
   scores within the mate bounds and leaves an admissible table *)
Theorem C14_search_always_reports_bounded_scores : forall (stopf : Stats -> bool) p hist tt,
  InvSR p -> TBnd tt -> t_len tt <> 0%N -> 0 <= halfmoves p ->
  exists r, (forall fuel, (ROOT_FUEL <= fuel)%nat -> root stopf fuel p hist tt = Some r)
            /\ (forall i, In i (rr_infos r) -> - MATE_SCORE <= i_score i <= MATE_SCORE /\ - INF < i_score i < INF)
            /\ TBnd (ss_tt (rr_state r)).
Proof. exact search_always_reports_bounded_scores. Qed.

Print Assumptions C14_iterations_in_order.
Print Assumptions C14_nodes_limit_honoured.
Print Assumptions C14_depth_limit_honoured.
Print Assumptions C14_scores_within_the_mate_bounds.
Print Assumptions C14_search_always_reports_bounded_scores.
