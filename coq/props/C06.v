(* C06 -- FEN output parses back.  PARTIAL.
   Proved on the model: the decimal printing of both clocks round-trips through the integer parser for every value
   0..2^31-1; the two characters printed for an en-passant square parse back to that square in both arithmetic modes.
   The board rows, the castling letters (incl. the Shredder letter for an inner rook, repaired in eb1b15a) and the
   whole-string round trip are decided by the correspondence run on positions reached by play and on canonical
   X-FEN strings written by an independent printer. *)
From Coq Require Import NArith ZArith List Bool.
From Rawr Require Import Consts Bits Magic Position MoveGen MakeMove Fen NotationFacts.
Local Open Scope Z_scope.

Theorem C06_clock_roundtrip : forall z, 0 <= z <= I32_MAX -> parse_i32 (show_Z z) = Some z.
Proof. exact parse_show_Z. Qed.

Theorem C06_ep_field_roundtrip : forall mode e, (e < 64)%N -> ep_roundtrip_ok mode e = true.
Proof. exact ep_field_roundtrip. Qed.

Print Assumptions C06_clock_roundtrip.
Print Assumptions C06_ep_field_roundtrip.
