(* C06 -- FEN output parses back.  PARTIAL.
   Proved on the model: the decimal printing of both clocks round-trips through the integer parser for every value
   0..2^31-1; the two characters printed for an en-passant square parse back to that square in both arithmetic modes.
   The board field round-trips for every well-formed position in both modes (FenBoard.v), and for every valid position
   WITHOUT castling rights the whole printed string parses back to the position itself, key included (FenRound.v).
   The castling letters (incl. the Shredder letter for an inner rook, repaired in eb1b15a) and the
   whole-string round trip are decided by the correspondence run on positions reached by play and on canonical
   X-FEN strings written by an independent printer. *)
From Coq Require Import NArith ZArith List Bool.
From Rawr Require Import Consts Bits Magic Position MoveGen MakeMove Fen NotationFacts HashFacts KeyAbs KeyMove MakeStages FenBoard FenRound.
Import ListNotations.
Local Open Scope Z_scope.

Theorem C06_clock_roundtrip : forall z, 0 <= z <= I32_MAX -> parse_i32 (show_Z z) = Some z.
Proof. exact parse_show_Z. Qed.

Theorem C06_ep_field_roundtrip : forall mode e, (e < 64)%N -> ep_roundtrip_ok mode e = true.
Proof. exact ep_field_roundtrip. Qed.

(* the board field: for every well-formed position in White's frame the printer never hits its "Uh oh" panic and the string it
   prints is read back by the parser's XOR-toggling loop as exactly the eight boards, with the square counter at 64, in both
   arithmetic modes (no u8 trap is reached).  Proof by an invariant over the squares in FEN order (FenBoard.v). *)
Theorem C06_board_field_roundtrip : forall np mode, WF np -> BB8 np -> turn np = false ->
  exists b, fen_board np [7; 6; 5; 4; 3; 2; 1; 0]%N = Some b
    /\ board_loop mode (mkBA 0 0 [0; 0; 0; 0; 0; 0]%N 0) b
       = Some (mkBA (c_us np) (c_them np) [pawns np; knights np; bishops np; rooks np; queens np; kings np] 64).
Proof. exact board_field_roundtrip. Qed.

(* the first sentence of the property for positions without castling rights: the printed FEN parses back to the very same
   position record -- placement, side to move, en-passant square, both clocks and the key -- in both arithmetic modes.
   `RT p`: well-formed boards below 2^64, no castling right (files at their defaults), `validate p = None`, stored key =
   recomputed key, clocks within i32, en-passant square on the board. *)
Theorem C06_fen_roundtrip_without_castling_rights : forall mode p, RT p ->
  exists s, get_fen p = Some s /\ set_fen mode (is_frc p) s = Some p.
Proof. exact fen_roundtrip. Qed.

(* non-vacuity: the start position with the castling rights taken away satisfies RT *)
Definition norights : Position :=
  let q := set_clocks_ep_rights startpos 0 1 None false false false false in set_hash q (calculate_hash q).
Example C06_rt_example : RT norights.
Proof.
  constructor.
  - apply WF_sound. vm_compute. reflexivity.
  - apply bb8_sound. vm_compute. reflexivity.
  - repeat split; reflexivity.
  - repeat split; reflexivity.
  - vm_compute. reflexivity.
  - vm_compute. reflexivity.
  - vm_compute. split; discriminate.
  - vm_compute. split; discriminate.
  - intros e H. discriminate H.
Qed.

Print Assumptions C06_clock_roundtrip.
Print Assumptions C06_ep_field_roundtrip.
Print Assumptions C06_board_field_roundtrip.
Print Assumptions C06_fen_roundtrip_without_castling_rights.
