(* C06 -- FEN output parses back.
   PROVED on the model for the first sentence of the property (C06_fen_roundtrip): for every valid position whose castle files
   of rights NOT held are at their defaults -- every subset of the four rights, standard or Chess960 files, K/Q/k/q or file
   letters as the printer chooses, either side to move, both arithmetic modes -- the printed FEN parses back to the very same
   position record, key included.  Positions reached by play in Chess960 can carry the file of a LOST right in `castle_files`
   (makemove clears the flag, not the file): for those the printed FEN parses back to the position with such dead files reset
   (C06_fen_roundtrip_modulo_dead_files; witness C06_dead_file_witness) -- the same chess position, a different record; the
   dead file is not printed and is read only by code that tests the flag first (but see C05_alias_geometry_is_needed).
   Second sentence (C06_canonical_string_reprints): the canonical string of a valid position -- the string the printer writes for
   it -- parses, in either arithmetic mode, to a position that prints as the very same string (the parse resets the dead files,
   which the printer does not read); C06_canonical_string_of_D_reprints for the positions of D.  "Canonical" is defined through the
   model's printer; that this printer writes the strings an independent X-FEN printer writes is checked by the correspondence run. *)
From Coq Require Import NArith ZArith List Bool.
From Rawr Require Import Consts Bits Magic Position MoveGen MakeMove Fen NotationFacts HashFacts KeyAbs KeyMove MakeStages GenSane Closure FenBoard FenRound FenCastle Abs FenDomain FenCanon.
Import ListNotations.
Local Open Scope Z_scope.

Theorem C06_clock_roundtrip : forall z, 0 <= z <= I32_MAX -> parse_i32 (show_Z z) = Some z.
Proof. exact parse_show_Z. Qed.

Theorem C06_ep_field_roundtrip : forall mode e, (e < 64)%N -> ep_roundtrip_ok mode e = true.
Proof. exact ep_field_roundtrip. Qed.

(* the board field: for every well-formed position in White's frame the printer never hits its "Uh oh" panic and the string it
   prints is read back by the parser's XOR-toggling loop as exactly the eight boards, with the square counter at 64, in both
   arithmetic modes (no u8 trap is reached).  Proof by an invariant over the squares in FEN order (FenBoard.v). *)
Theorem C06_board_field_roundtrip : forall np mode, WF np -> BB8 np -> turn np = false ->
  exists b, fen_board np [7; 6; 5; 4; 3; 2; 1; 0]%N = Some b
    /\ board_loop mode (mkBA 0 0 [0; 0; 0; 0; 0; 0]%N 0) b
       = Some (mkBA (c_us np) (c_them np) [pawns np; knights np; bishops np; rooks np; queens np; kings np] 64).
Proof. exact board_field_roundtrip. Qed.

(* the first sentence of the property for positions without castling rights: the printed FEN parses back to the very same
   position record -- placement, side to move, en-passant square, both clocks and the key -- in both arithmetic modes.
   `RT p`: well-formed boards below 2^64, no castling right (files at their defaults), `validate p = None`, stored key =
   recomputed key, clocks within i32, en-passant square on the board. *)
Theorem C06_fen_roundtrip_without_castling_rights : forall mode p, RT p ->
  exists s, get_fen p = Some s /\ set_fen mode (is_frc p) s = Some p.
Proof. exact fen_roundtrip. Qed.

(* non-vacuity: the start position with the castling rights taken away satisfies RT *)
Definition norights : Position :=
  let q := set_clocks_ep_rights startpos 0 1 None false false false false in set_hash q (calculate_hash q).
Example C06_rt_example : RT norights.
Proof.
  constructor.
  - apply WF_sound. vm_compute. reflexivity.
  - apply bb8_sound. vm_compute. reflexivity.
  - repeat split; reflexivity.
  - repeat split; reflexivity.
  - vm_compute. reflexivity.
  - vm_compute. reflexivity.
  - vm_compute. split; discriminate.
  - vm_compute. split; discriminate.
  - intros e H. discriminate H.
Qed.

(* ---- the whole string, with castling rights (FenCastle.v): RTC = RT with the castling clause `CasOK` (a held right has its
   rook file on the proper wing of the king, <= 7; a right not held has the default file 7/0) *)
Theorem C06_castling_field_roundtrip : forall np, CasOK np ->
  castle_loop (c_us np) (c_them np) (rooks np) (kings np) (mkCA false false false false 7%N 0%N 7%N 0%N) [] (cas_field np)
  = Some (mkCA (us_ksc np) (us_qsc np) (them_ksc np) (them_qsc np) (cf0 np) (cf1 np) (cf2 np) (cf3 np)).
Proof. exact castle_field_roundtrip. Qed.
Theorem C06_fen_roundtrip : forall mode p, RTC p -> exists s, get_fen p = Some s /\ set_fen mode (is_frc p) s = Some p.
Proof. exact fen_roundtrip_rights. Qed.
Theorem C06_fen_roundtrip_modulo_dead_files : forall mode p, RTW p ->
  exists s, get_fen p = Some s /\ set_fen mode (is_frc p) s = Some (norm_files p).
Proof. exact fen_roundtrip_modulo_dead_files. Qed.
Theorem C06_premises_from_the_invariant : forall p, Inv p ->
  (us_ksc p = false -> cf0 p = 7%N) -> (us_qsc p = false -> cf1 p = 0%N) -> (them_ksc p = false -> cf2 p = 7%N) -> (them_qsc p = false -> cf3 p = 0%N) ->
  validate p = None -> (halfmoves p <= I32_MAX)%Z -> (fullmoves p <= I32_MAX)%Z -> RTC p.
Proof. exact RTC_of_Inv. Qed.
Theorem C06_canonical_string_reprints : forall mode p s, RTW p -> get_fen p = Some s ->
  exists q, set_fen mode (is_frc p) s = Some q /\ get_fen q = Some s /\ q = norm_files p.
Proof. exact canonical_string_reprints. Qed.
Theorem C06_canonical_string_of_D_reprints : forall mode p s,
  in_D p = true -> (halfmoves p <= I32_MAX)%Z -> (fullmoves p <= I32_MAX)%Z -> get_fen p = Some s ->
  exists q, set_fen mode (is_frc p) s = Some q /\ get_fen q = Some s.
Proof. exact canonical_string_of_D_reprints. Qed.
(* a position reached by one legal move in a Chess960 game whose record keeps the file of a lost right: its printed FEN parses
   back with that file at the default *)
Theorem C06_dead_file_witness : let q := makemove true frc_w (mkMv 5 13 6) in
  existsb (fun x => (m_from x =? 5)%N && (m_to x =? 13)%N && (m_promo x =? 6)%N) (legal_moves frc_w) = true
  /\ validate q = None /\ hash q = calculate_hash q /\ them_ksc q = false /\ cf2 q = 5%N
  /\ match get_fen q with Some s => match set_fen true true s with Some q' => cf2 q' = 7%N | None => False end | None => False end.
Proof. exact stale_file_witness. Qed.
Example C06_rtc_startpos : RTC startpos.
Proof. exact rtc_startpos. Qed.

Print Assumptions C06_clock_roundtrip.
Print Assumptions C06_ep_field_roundtrip.
Print Assumptions C06_board_field_roundtrip.
Print Assumptions C06_fen_roundtrip_without_castling_rights.
Print Assumptions C06_castling_field_roundtrip.
Print Assumptions C06_fen_roundtrip.
Print Assumptions C06_fen_roundtrip_modulo_dead_files.
Print Assumptions C06_premises_from_the_invariant.
Print Assumptions C06_dead_file_witness.
Print Assumptions C06_canonical_string_reprints.
Print Assumptions C06_canonical_string_of_D_reprints.
