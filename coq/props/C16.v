(* C16 -- `ucinewgame` + `position` determine what the engine reports (model of uci/listen.rs: Uci.v). *)
From Coq Require Import NArith ZArith List Bool String.
From Rawr Require Import Consts Bits Magic Position MoveGen MakeMove Fen Eval TT Search Uci UciFacts SearchFacts.
Import ListNotations.
Local Open Scope N_scope.

(* two engine states with the same option values (Chess960 flag, Hash) and table size are IDENTICAL after
   ucinewgame, whatever was executed before: every later command then produces the same output and state *)
Theorem C16_newgame_resets : forall mode s1 s2 c,
  tok_is c "ucinewgame" = true ->
  u_frc s1 = u_frc s2 -> u_hash s1 = u_hash s2 -> t_len (u_tt s1) = t_len (u_tt s2) ->
  step mode s1 [c] = step mode s2 [c].
Proof. exact newgame_resets. Qed.

Theorem C16_newgame_state : forall mode s c,
  tok_is c "ucinewgame" = true ->
  step mode s [c] = Cont (mkU (set_frc startpos (u_frc s)) [hash (set_frc startpos (u_frc s))]
                              (tt_clear (u_tt s)) (u_hash s) (u_frc s)) [].
Proof. exact newgame_state. Qed.

(* without ucinewgame: position, history and diagnostics after `position ...` depend on the earlier state only
   through the Chess960 flag (the table is left alone) *)
Theorem C16_position_resets_pos_history : forall mode s1 s2 c args,
  tok_is c "ucinewgame" = false -> tok_is c "isready" = false ->
  tok_is c "print" = false -> tok_is c "display" = false -> tok_is c "board" = false -> tok_is c "go" = false ->
  tok_is c "position" = true ->
  is_frc (u_pos s1) = is_frc (u_pos s2) -> u_frc s1 = u_frc s2 ->
  match step mode s1 (c :: args), step mode s2 (c :: args) with
  | Cont a o1, Cont b o2 => u_pos a = u_pos b /\ u_hist a = u_hist b /\ o1 = o2
  | Panic _, Panic _ => True
  | _, _ => False
  end.
Proof. exact position_resets_pos_history. Qed.

(* a search does not change the table size, so the size premise above is an invariant of the session *)
Theorem C16_search_keeps_table_size : forall (stopf : Stats -> bool) fuel p hist tt r,
  root stopf fuel p hist tt = Some r -> t_len (ss_tt (rr_state r)) = t_len tt.
Proof. exact root_keeps_table_size. Qed.

(* non-vacuity: the literal command word is recognised *)
Example C16_example : tok_is (lit "ucinewgame") "ucinewgame" = true.
Proof. vm_compute. reflexivity. Qed.

Print Assumptions C16_newgame_resets.
Print Assumptions C16_newgame_state.
Print Assumptions C16_position_resets_pos_history.
Print Assumptions C16_search_keeps_table_size.
