(* C03 -- a search answers with a legal move.
   Proved on the model: the answer of `root` is the move of the last reported iteration; whenever the root node's
   move loop ends with a best move, that move is recorded and is legal in the root position; the root is never cut
   off by the null move; a table entry can only re-order the root's moves (ordering is a permutation).
   Proved at the root level with no hypothesis left (C03_search_answers_with_a_legal_move): for every limit, history and
   admissible table the search answers with a legal move whenever the root has one -- on the model, for positions
   satisfying the executable invariant `invr_b`; the tie to the binary is the correspondence run over limits, histories,
   clocks and pre-filled tables. *)
From Coq Require Import NArith ZArith List Bool Permutation String.
From Rawr Require Import Consts Bits Magic Position MoveGen MakeMove Eval TT Search MakeStages SearchFacts SearchFacts2 Closure MenCount EpRetro SearchBound GenLegal SearchTotal SearchFinal Fen Uci SessionInv.
Import ListNotations.
Local Open Scope Z_scope.

Theorem C03_root_node_best_legal : forall rec p s ao alpha beta ply depth in_chk cn ttm v s',
  nm_moves rec p s ao alpha beta ply depth in_chk true cn ttm = Some (v, s') ->
  (exists m, st_best (ss_stats s') = Some m /\ In m (legal_moves p))
  \/ (exists r, n_loop rec p in_chk beta ply depth (sort_n p (legal_moves p) ttm) 0 s alpha (- INF) None = Some r
                /\ snd (fst r) = None).
Proof. exact root_node_best_legal. Qed.

(* with legal moves at the root and no successor valued +INF or more, the root records a legal move: this is the
   statement of the property at the root node, under a value-bound premise that is not proved yet *)
Theorem C03_root_node_answers_legal : forall rec p s ao alpha beta ply depth in_chk cn ttm v s',
  (forall q s a b pl d cn v s', rec q s a b pl d cn = Some (v, s') -> v < INF) ->
  legal_moves p <> [] ->
  nm_moves rec p s ao alpha beta ply depth in_chk true cn ttm = Some (v, s') ->
  exists m, st_best (ss_stats s') = Some m /\ In m (legal_moves p).
Proof. exact root_node_answers_legal. Qed.

Theorem C03_answer_is_last_pv : forall (stopf : Stats -> bool) fuel p hist tt r,
  root stopf fuel p hist tt = Some r ->
  rr_best r = None \/ rr_best r = match rev (rr_infos r) with [] => None | i :: _ => Some (i_pv i) end.
Proof. exact answer_is_last_pv. Qed.

Theorem C03_ordering_is_permutation : forall p ms tm, Permutation (sort_n p ms tm) ms.
Proof. exact sort_n_perm. Qed.

(* ---- the root-level statement (SearchBound.v, GenLegal.v): for every limit (any stop predicate, incl. zero budgets), every
   game history and every table content satisfying the table invariant `TBnd` (all stored scores within the mate bounds --
   true of a new, a cleared and a resized table and kept by every search: C14_scores_within_the_mate_bounds), the search
   answers with a move that is legal in the root position whenever the root has one.  `InvSR` is the invariant kept by
   every generated move and null move (Closure.v, MenCount.v, EpRetro.v; executable form `invr_b`).  No hypothesis is left:
   that a generated move never leaves the mover's own king attacked is C01_no_generated_move_leaves_the_king_attacked. *)
Theorem C03_search_answers_with_a_legal_move : forall (stopf : Stats -> bool) fuel p hist tt r,
  InvSR p -> TBnd tt -> Z.of_nat fuel <= 2 * MATE_SCORE -> legal_moves p <> [] ->
  root stopf fuel p hist tt = Some r -> exists m, rr_best r = Some m /\ In m (legal_moves p).
Proof. exact search_answers_with_a_legal_move. Qed.
Theorem C03_executable_invariant_sound : forall p, invr_b p = true -> InvSR p.
Proof. exact invr_b_sound. Qed.

(* ---- without "modulo fuel": the search of the model TERMINATES (SearchTotal.v: every recursive call strictly decreases
   101 * (potential: 8 per man + ranks the pawns can still advance) + 101 * depth + (100 - half-move clock) -- a capture or pawn
   move lowers the potential, a quiet move raises the clock, a non-root node with clock 100 returns at once, depth 0 goes to the
   quiescence search which a capture-count bounds) and its result does not depend on the fuel beyond ROOT_FUEL = 61442
   (FuelFacts.v); so for every limit, history and admissible table with at least one slot the search DOES return a result, the
   same for every sufficient fuel, and its answer is a legal move whenever the root has one *)
Theorem C03_search_always_answers_with_a_legal_move : forall (stopf : Stats -> bool) p hist tt,
  InvSR p -> TBnd tt -> t_len tt <> 0%N -> 0 <= halfmoves p -> legal_moves p <> [] ->
  exists r, (forall fuel, (ROOT_FUEL <= fuel)%nat -> root stopf fuel p hist tt = Some r)
            /\ exists m, rr_best r = Some m /\ In m (legal_moves p).
Proof. exact search_always_answers_with_a_legal_move. Qed.
Theorem C03_search_terminates : forall (stopf : Stats -> bool) p hist tt fuel,
  InvSR p -> t_len tt <> 0%N -> 0 <= halfmoves p -> 61442 <= Z.of_nat fuel -> root stopf fuel p hist tt <> None.
Proof. exact root_total_const. Qed.
Theorem C03_tables_the_engine_makes_satisfy_the_invariant : forall mb t,
  TBnd (tt_new mb) /\ TBnd (tt_clear t) /\ (TBnd t -> TBnd (tt_resize t mb)).
Proof. intros mb t. split; [apply TBnd_new|split; [apply TBnd_clear|apply TBnd_resize]]. Qed.
Example C03_premises_startpos : invr_b startpos = true.
Proof. vm_compute. reflexivity. Qed.

(* SESSION LEVEL: in every state the command loop can reach along any script (proofs/SessionInv.v; side condition on the FEN
   text of position lines only), a `go depth N` / `go nodes N` that the model evaluates prints, as its last line, bestmove with a
   legal move whenever one exists; and the search itself, run with sufficient fuel from that state (its position, its history,
   its table -- whatever earlier searches left in it) under any stop predicate, returns and answers with a legal move *)
Theorem C03_every_go_of_a_session_answers_with_a_legal_move : forall mode lines s s1 args s2 o,
  SessInv s -> script_dom mode s lines -> Reached mode s lines s1 ->
  is_search_go args -> Uci.step mode s1 (lit "go"%string :: args) = Cont s2 o ->
  legal_moves (u_pos s1) <> [] ->
  exists m, In m (legal_moves (u_pos s1)) /\ last o [] = (lit "bestmove "%string ++ to_uci (u_pos s1) m)%list.
Proof. exact session_go_answers. Qed.

Theorem C03_search_from_every_session_state_answers : forall mode lines s s1 (stopf : Stats -> bool),
  SessInv s -> script_dom mode s lines -> Reached mode s lines s1 -> legal_moves (u_pos s1) <> [] ->
  exists r, (forall fuel, (ROOT_FUEL <= fuel)%nat -> root stopf fuel (u_pos s1) (u_hist s1) (u_tt s1) = Some r)
            /\ exists m, rr_best r = Some m /\ In m (legal_moves (u_pos s1)).
Proof. exact session_search_would_answer. Qed.

Print Assumptions C03_root_node_best_legal.
Print Assumptions C03_root_node_answers_legal.
Print Assumptions C03_answer_is_last_pv.
Print Assumptions C03_ordering_is_permutation.
Print Assumptions C03_search_answers_with_a_legal_move.
Print Assumptions C03_tables_the_engine_makes_satisfy_the_invariant.
Print Assumptions C03_executable_invariant_sound.
Print Assumptions C03_search_always_answers_with_a_legal_move.
Print Assumptions C03_search_terminates.
Print Assumptions C03_every_go_of_a_session_answers_with_a_legal_move.
Print Assumptions C03_search_from_every_session_state_answers.
