(* C02 -- make-move yields the successor the rules prescribe.  PARTIAL.
   Proved: the null-move clause at full strength (abstracted to the 8x8 specification state), and the move clause for
   every NON-CASTLING move (quiet moves, captures, double pushes, en-passant captures, promotions with and without
   capture): all nine components of the specification state -- placement, side to move, the four castling rights,
   en-passant target, half-move clock, full-move number -- are those of Rules.apply, under the executable test
   MakeStages.premises_b (our man on the origin, target empty or theirs, one kind per touched square, no king on a rook
   square, one own king, castle files <= 7, pawn geometry).  The correspondence run evaluates premises_b on every
   legal non-castling move it generates (it must be true) and compares makemove with Rules.apply on castling moves too.
   Castling moves (standard and Chess960) are covered by the analogous test cpremises_b; refines_b is their
   disjunction and is evaluated (true) on every legal move the correspondence run generates.
   Still open: that in_D is preserved, and that every legal move of a position in D passes refines_b
   (makemove_refines_statement). *)
From Coq Require Import NArith ZArith List Bool.
From Rawr Require Import Consts Bits Magic Position MoveGen MakeMove MakeStages Rules Abs AbsFacts MakeFacts MakeAbs CastleFacts CastleAbs GenSane Closure ClosureNull EpRetro GenLegal DomainInv DomainClosed.
Import ListNotations.
Local Open Scope N_scope.

Definition makemove_refines_statement : Prop :=
  forall p m, in_D p = true -> In m (legal_moves p) ->
    abs_state (makemove true p m) = apply (abs_state p) (dec p m) /\ in_D (makemove true p m) = true.

(* a null move only passes the turn and clears the en-passant target (the engine also resets the clock): same
   absolute placement, same castling rights and rook files, for every position whose colour boards are disjoint *)
Theorem C02_makenull_spec : forall p, colours_disjoint p -> abs_state (makenull p) = pass_turn (abs_state p).
Proof. exact makenull_spec. Qed.

Theorem C02_flip_keeps_board : forall p, colours_disjoint p -> board_of (flip p) = board_of p.
Proof. exact board_of_flip. Qed.

Example C02_example : colours_disjoint startpos /\ abs_state (makenull startpos) = pass_turn (abs_state startpos).
Proof. split; vm_compute; reflexivity. Qed.

(* the move clause for every non-castling move that passes the executable premise test, with or without the
   incremental key update *)
Theorem C02_makemove_refines_noncastling : forall u p m,
  premises_b p m = true -> abs_state (makemove u p m) = apply (abs_state p) (dec p m).
Proof. exact makemove_refines_premises. Qed.

(* castling, written king-takes-own-rook, standard and Chess960 geometry (king or rook may already stand on a target
   square), under the executable test cpremises_b *)
Theorem C02_makemove_refines_castling : forall u p m,
  cpremises_b p m = true -> abs_state (makemove u p m) = apply (abs_state p) (dec p m).
Proof. exact makemove_refines_cpremises. Qed.

(* every move kind: refines_b = premises_b || cpremises_b *)
Theorem C02_makemove_refines : forall u p m,
  refines_b p m = true -> abs_state (makemove u p m) = apply (abs_state p) (dec p m).
Proof. exact makemove_refines_all. Qed.

(* NO per-move premise: on a position that passes the executable test good_pos_b (boards below 2^64, one man at most
   per square, colours disjoint, one own king, castle files <= 7, a coherent en-passant square, castling rights backed by
   rooks with the king between them on the home rank, stored key = recomputed key), EVERY move the generator emits --
   pawn pushes, captures, promotions, en passant, knight, slider and king moves, both castlings -- refines Rules.apply.
   (proofs/GenSane.v: the generator block by block; `allowed` never contains one of our men because a ray that meets a
   checker stops exactly there.) *)
Theorem C02_every_generated_move_refines : forall u p m,
  good_pos_b p = true -> In m (legal_moves p) -> abs_state (makemove u p m) = apply (abs_state p) (dec p m).
Proof. exact good_pos_refines. Qed.

(* the definition of makemove is the composition of the stages the proof works on *)
Theorem C02_makemove_is_its_stages : forall u p0 m,
  makemove u p0 m =
  flip (set_clocks_ep_rights (mv_boards u p0 m) (mv_hm u p0 m) (mv_fm p0) (mv_new_ep p0 m)
          (keeps_right (us_ksc p0) (m_from m) (m_to m) (lsb (N.land (c_us p0) (kings p0))) (sq_of (cf0 p0) 0))
          (keeps_right (us_qsc p0) (m_from m) (m_to m) (lsb (N.land (c_us p0) (kings p0))) (sq_of (cf1 p0) 0))
          (keeps_right (them_ksc p0) (m_from m) (m_to m) (lsb (N.land (c_them p0) (kings p0))) (sq_of (cf2 p0) 7))
          (keeps_right (them_qsc p0) (m_from m) (m_to m) (lsb (N.land (c_them p0) (kings p0))) (sq_of (cf3 p0) 7))).
Proof. exact makemove_stages. Qed.

(* non-vacuous: a double push, a knight move, and an en-passant capture reached by play *)
Definition after (ms : list Mv) : Position := fold_left (makemove true) ms startpos.
Example C02_premises_example :
  premises_b startpos (mkMv 12 28 NOPIECE) = true /\ premises_b startpos (mkMv 6 21 NOPIECE) = true
  /\ premises_b (after [mkMv 12 28 NOPIECE; mkMv 8 16 NOPIECE; mkMv 28 36 NOPIECE; mkMv 11 27 NOPIECE]) (mkMv 36 43 NOPIECE) = true
  /\ mv_is_ep (after [mkMv 12 28 NOPIECE; mkMv 8 16 NOPIECE; mkMv 28 36 NOPIECE; mkMv 11 27 NOPIECE]) (mkMv 36 43 NOPIECE) = true.
Proof. repeat split; vm_compute; reflexivity. Qed.

(* castling reached by play: 1.e4 e5 2.Nf3 Nf6 3.Bc4 Bc5 4.O-O (king e1 takes rook h1), then Black castles too *)
Definition castle_line : list Mv :=
  [mkMv 12 28 NOPIECE; mkMv 12 28 NOPIECE; mkMv 6 21 NOPIECE; mkMv 6 21 NOPIECE; mkMv 5 26 NOPIECE; mkMv 5 26 NOPIECE].
Example C02_castling_example :
  cpremises_b (after castle_line) (mkMv 4 7 NOPIECE) = true
  /\ cpremises_b (after (castle_line ++ [mkMv 4 7 NOPIECE])) (mkMv 4 7 NOPIECE) = true
  /\ premises_b (after castle_line) (mkMv 4 7 NOPIECE) = false.
Proof. repeat split; vm_compute; reflexivity. Qed.

Example C02_good_example : good_pos_b startpos = true /\ good_pos_b (after castle_line) = true.
Proof. split; vm_compute; reflexivity. Qed.

(* ---- closure: the invariant under which the refinement holds (Good, CastleGood, KeyGood, one enemy king, the enemy's
   castling rights backed by rook and king, the side not to move not in check -- `Closure.Inv`, executable form `inv_b`)
   is kept by every generated move that does not leave the mover's own king attacked.  So "the result is always a
   structurally valid position in which the side that just moved is not in check" holds after every generated legal
   move, and the refinement holds along every sequence of them. *)
Theorem C02_invariant_is_kept : forall p m, Inv p -> In m (legal_moves p) ->
  in_check_them (makemove true p m) = false -> Inv (makemove true p m).
Proof. exact inv_step. Qed.
Theorem C02_executable_invariant_sound : forall p, inv_b p = true -> Inv p.
Proof. exact inv_b_sound. Qed.
Theorem C02_every_sequence_refines : forall ms p, Inv p -> legal_seq p ms ->
  Inv (fold_left (makemove true) ms p) /\ abs_state (fold_left (makemove true) ms p) = spec_run p ms (abs_state p).
Proof. intros ms p I H. split; [exact (inv_run ms p I H)|exact (run_refines ms p I H)]. Qed.
Example C02_invariant_startpos : inv_b startpos = true /\ inv_b (after castle_line) = true.
Proof. split; vm_compute; reflexivity. Qed.

(* the same with null moves in the sequence (the side passing must not be in check): the invariant is kept and the abstract
   state follows the rules, a null move being `pass_turn` *)
Theorem C02_null_move_keeps_the_invariant : forall p, Inv p -> in_check_them (makenull p) = false -> Inv (makenull p).
Proof. exact null_inv. Qed.
Theorem C02_every_sequence_with_null_moves_refines : forall os p, Inv p -> legal_ops p os ->
  Inv (fold_left play_op os p) /\ abs_state (fold_left play_op os p) = spec_ops p os (abs_state p).
Proof. intros os p I H. split; [exact (inv_ops os p I H)|exact (ops_refine os p I H)]. Qed.

(* ---- with NO legality premise (GenLegal.v): the invariant together with the en-passant consistency (`InvR`, executable
   form `invR_b`) is kept by EVERY move the generator emits -- a generated move never leaves the mover's king attacked
   (C01_no_generated_move_leaves_the_king_attacked) -- and by the null move played out of check; hence along every sequence
   of generated moves the result is a structurally valid position in which the side that just moved is not in check, and
   the abstract state follows the rules *)
Theorem C02_invariant_is_kept_by_every_generated_move : forall p m, InvR p -> In m (legal_moves p) -> InvR (makemove true p m).
Proof. exact invR_step. Qed.
Theorem C02_invariant_is_kept_by_the_null_move_out_of_check : forall p, InvR p -> in_check p = false -> InvR (makenull p).
Proof. exact invR_null. Qed.
Theorem C02_every_sequence_of_generated_moves_refines : forall ms p, InvR p -> gen_seq p ms ->
  InvR (fold_left (makemove true) ms p) /\ abs_state (fold_left (makemove true) ms p) = spec_run p ms (abs_state p).
Proof. intros ms p I H. split; [exact (gen_run_inv ms p I H)|exact (gen_run_refines ms p I H)]. Qed.
Theorem C02_executable_invariant_with_ep_sound : forall p, invR_b p = true -> InvR p.
Proof. exact invR_b_sound. Qed.
Example C02_invR_startpos : invR_b startpos = true /\ invR_b (after castle_line) = true.
Proof. split; vm_compute; reflexivity. Qed.

(* ---- the domain D of DESIGN section 4 itself (executable test in_D: validate's tests, consistent boards, rights geometry,
   stored key = recomputed key, en-passant retro-consistency, legal material) is closed under EVERY generated move and under the
   null move played out of check, so every position reached by play from a position of D is in D (DomainClosed.v: the invariant
   InvR is kept; validate / consistent / rights geometry / ep_retro are recovered from it; counters, "no pawn on ranks 1/8",
   "ep square on rank 5" and the material bounds are carried along separately) *)
Theorem C02_D_is_closed_under_generated_moves : forall p m, in_D p = true -> In m (legal_moves p) -> in_D (makemove true p m) = true.
Proof. exact in_D_step. Qed.
Theorem C02_D_is_closed_under_the_null_move : forall p, in_D p = true -> in_check p = false -> in_D (makenull p) = true.
Proof. exact in_D_null. Qed.
Theorem C02_every_reachable_position_is_in_D : forall os p, in_D p = true -> gen_ops p os -> in_D (fold_left play_op os p) = true.
Proof. exact in_D_ops. Qed.
Theorem C02_domain_implies_the_invariant : forall p, in_D p = true -> invr_b p = true.
Proof. exact in_D_invr. Qed.
Example C02_startpos_in_D : in_D startpos = true.
Proof. vm_compute. reflexivity. Qed.

Print Assumptions C02_makenull_spec.
Print Assumptions C02_makemove_refines_noncastling.
Print Assumptions C02_makemove_is_its_stages.
Print Assumptions C02_makemove_refines_castling.
Print Assumptions C02_makemove_refines.
Print Assumptions C02_every_generated_move_refines.
Print Assumptions C02_flip_keeps_board.
Print Assumptions C02_invariant_is_kept.
Print Assumptions C02_executable_invariant_sound.
Print Assumptions C02_every_sequence_refines.
Print Assumptions C02_null_move_keeps_the_invariant.
Print Assumptions C02_every_sequence_with_null_moves_refines.
Print Assumptions C02_invariant_is_kept_by_every_generated_move.
Print Assumptions C02_invariant_is_kept_by_the_null_move_out_of_check.
Print Assumptions C02_every_sequence_of_generated_moves_refines.
Print Assumptions C02_executable_invariant_with_ep_sound.
Print Assumptions C02_D_is_closed_under_generated_moves.
Print Assumptions C02_D_is_closed_under_the_null_move.
Print Assumptions C02_every_reachable_position_is_in_D.
Print Assumptions C02_domain_implies_the_invariant.
