(* C02 -- make-move yields the successor the rules prescribe.  PARTIAL.
   Proved: the null-move clause at full strength (abstracted to the 8x8 specification state).  The move clause
   (makemove_refines_statement) is checked by the correspondence run on every legal move of sampled positions and
   along play-outs (model vs implementation vs Rules.apply), not proved. *)
From Coq Require Import NArith ZArith List Bool.
From Rawr Require Import Consts Bits Magic Position MoveGen MakeMove Rules Abs AbsFacts.
Import ListNotations.
Local Open Scope N_scope.

Definition makemove_refines_statement : Prop :=
  forall p m, in_D p = true -> In m (legal_moves p) ->
    abs_state (makemove true p m) = apply (abs_state p) (dec p m) /\ in_D (makemove true p m) = true.

(* a null move only passes the turn and clears the en-passant target (the engine also resets the clock): same
   absolute placement, same castling rights and rook files, for every position whose colour boards are disjoint *)
Theorem C02_makenull_spec : forall p, colours_disjoint p -> abs_state (makenull p) = pass_turn (abs_state p).
Proof. exact makenull_spec. Qed.

Theorem C02_flip_keeps_board : forall p, colours_disjoint p -> board_of (flip p) = board_of p.
Proof. exact board_of_flip. Qed.

Example C02_example : colours_disjoint startpos /\ abs_state (makenull startpos) = pass_turn (abs_state startpos).
Proof. split; vm_compute; reflexivity. Qed.

Print Assumptions C02_makenull_spec.
Print Assumptions C02_flip_keeps_board.
