(* C07 -- the FEN parser yields only structurally valid positions.
   Proved for EVERY string (list of code points) and both arithmetic modes (Checked = overflow traps reject,
   Wrapping = u8 arithmetic wraps, shift amounts are masked): an accepted string yields a position that passed
   validate and carries the key recomputed from scratch; and what passing validate means.
   an accepted string also yields CONSISTENT bitboards (us | them = union of the six piece boards): the board loop
   keeps  white xor black = xor of the piece boards  (each character toggles one colour bit and one piece bit of the
   same square, wrap-around or not) and validate's disjointness tests turn the xors into unions (DESIGN A6).
   Completeness: the FEN the engine prints for any position of D, and of any position reached from D by moves and null moves,
   is accepted (C07_fen_of_every_position_of_D_is_accepted, C07_fen_of_every_reached_position_is_accepted), and it denotes the
   position it was printed from -- the very same record, or the record with the files of lost rights reset
   (C07_printed_fen_is_accepted, C07_printed_fen_of_a_reached_position_is_accepted).
   The other spelling of the castling field is covered too (proofs/FenShredder.v): with every held right written as the FILE LETTER
   of its rook (Shredder-FEN, "HAha" for the start position), or any mix of file letters and the printer's letters, right by right,
   the string parses -- in either arithmetic mode, whatever the Chess960 flag -- to the very same position
   (C07_file_letter_spelling_denotes_the_same_position, C07_any_mix_of_spellings_denotes_the_same_position).
   LEFT TO THE RUN: other orders of the castling letters, omitted counters, surrounding white space: every pool FEN is offered in
   both notations and the fields are compared with an independent reading. *)
From Coq Require Import NArith ZArith List Bool.
From Rawr Require Import Consts Bits Magic Position MoveGen MakeMove Fen FenFacts ParityFacts FenRound FenCastle Abs ClosureNull DomainClosed FenDomain FenShredder.
Local Open Scope N_scope.

Theorem C07_parse_validated : forall mode frc s q,
  set_fen mode frc s = Some q -> validate q = None /\ hash q = calculate_hash q.
Proof. exact parse_validated. Qed.

Theorem C07_validate_sound : forall p, validate p = None ->
  emp2 (pawns p) RANK18
  /\ emp2 (get_white p) (get_black p)
  /\ emp2 (pawns p) (knights p) /\ emp2 (pawns p) (bishops p) /\ emp2 (pawns p) (rooks p) /\ emp2 (pawns p) (queens p)
  /\ emp2 (pawns p) (kings p) /\ emp2 (knights p) (bishops p) /\ emp2 (knights p) (rooks p) /\ emp2 (knights p) (queens p)
  /\ emp2 (knights p) (kings p) /\ emp2 (bishops p) (rooks p) /\ emp2 (bishops p) (queens p) /\ emp2 (bishops p) (kings p)
  /\ emp2 (rooks p) (queens p) /\ emp2 (rooks p) (kings p) /\ emp2 (queens p) (kings p)
  /\ (forall e, ep p = Some e -> rank_of e = 5 /\ N.land (N.land (south (bit e)) (c_them p)) (pawns p) <> 0
                                /\ N.land (bit e) (occupied p) = 0)
  /\ popcount (N.land (get_white p) (kings p)) = 1 /\ popcount (N.land (get_black p) (kings p)) = 1
  /\ (0 <= halfmoves p)%Z /\ (1 <= fullmoves p)%Z
  /\ (us_ksc p = true -> rank_of (lsb (N.land (c_us p) (kings p))) = 0
                         /\ is_set (N.land (c_us p) (rooks p)) (sq_of (cf0 p) 0) = true)
  /\ (us_qsc p = true -> rank_of (lsb (N.land (c_us p) (kings p))) = 0
                         /\ is_set (N.land (c_us p) (rooks p)) (sq_of (cf1 p) 0) = true)
  /\ (them_ksc p = true -> rank_of (lsb (N.land (c_them p) (kings p))) = 7
                           /\ is_set (N.land (c_them p) (rooks p)) (sq_of (cf2 p) 7) = true)
  /\ (them_qsc p = true -> rank_of (lsb (N.land (c_them p) (kings p))) = 7
                           /\ is_set (N.land (c_them p) (rooks p)) (sq_of (cf3 p) 7) = true)
  /\ is_sq_attacked p (lsb (N.land (c_them p) (kings p))) true = false.
Proof. exact validate_sound. Qed.

Theorem C07_parse_consistent : forall mode frc s q,
  set_fen mode frc s = Some q ->
  N.lor (c_us q) (c_them q)
  = N.lor (pawns q) (N.lor (knights q) (N.lor (bishops q) (N.lor (rooks q) (N.lor (queens q) (kings q))))).
Proof. exact parse_consistent. Qed.

(* non-vacuity: the start position string is accepted in both modes *)
Example C07_example : (exists q, set_fen true false STARTPOS_STR = Some q) /\ (exists q, set_fen false false STARTPOS_STR = Some q).
Proof. split; eexists; vm_compute; reflexivity. Qed.


(* ---- completeness, in the form the model can carry: the FEN the engine itself prints for a valid position (every subset of
   castling rights, standard or Chess960 files, either side to move; castle files of rights not held at their defaults) is
   accepted by the parser in both arithmetic modes and yields that position (FenCastle.v); for positions reached by play that
   carry the file of a lost right, it is accepted and yields the position with those dead files reset.  Acceptance of every
   canonical X-FEN of a position of D written by an independent printer is decided by the correspondence run. *)
Theorem C07_printed_fen_is_accepted : forall mode p, RTC p -> exists s, get_fen p = Some s /\ set_fen mode (is_frc p) s = Some p.
Proof. exact fen_roundtrip_rights. Qed.
Theorem C07_printed_fen_of_a_reached_position_is_accepted : forall mode p, RTW p ->
  exists s q, get_fen p = Some s /\ set_fen mode (is_frc p) s = Some q.
Proof. intros mode p H. destruct (fen_roundtrip_modulo_dead_files mode p H) as (s & H1 & H2). exists s, (norm_files p). split; assumption. Qed.

(* ... and over the domain D itself: every position of D whose clocks fit into an i32, and every position reached from it by
   generated moves and null moves (while the clocks stay in range), has its printed FEN accepted, yielding the same chess position *)
Theorem C07_fen_of_every_position_of_D_is_accepted : forall mode p,
  in_D p = true -> (halfmoves p <= I32_MAX)%Z -> (fullmoves p <= I32_MAX)%Z ->
  exists s, get_fen p = Some s /\ set_fen mode (is_frc p) s = Some (norm_files p).
Proof. exact fen_of_D_is_accepted. Qed.
Theorem C07_fen_of_every_reached_position_is_accepted : forall mode os p, in_D p = true -> gen_ops p os ->
  let q := fold_left play_op os p in (halfmoves q <= I32_MAX)%Z -> (fullmoves q <= I32_MAX)%Z ->
  exists s, get_fen q = Some s /\ set_fen mode (is_frc q) s = Some (norm_files q).
Proof. exact fen_of_reached_position_is_accepted. Qed.

Theorem C07_file_letter_spelling_denotes_the_same_position : forall mode p, RTC p ->
  exists s, get_fen_shredder p = Some s /\ set_fen mode (is_frc p) s = Some p.
Proof. exact fen_shredder_roundtrip. Qed.
Theorem C07_any_mix_of_spellings_denotes_the_same_position : forall mode s0 s1 s2 s3 p, RTC p ->
  exists s, get_fen_mix s0 s1 s2 s3 p = Some s /\ set_fen mode (is_frc p) s = Some p.
Proof. exact fen_mix_roundtrip. Qed.
Theorem C07_file_letter_spelling_of_a_reached_position : forall mode p, RTW p ->
  exists s, get_fen_shredder p = Some s /\ set_fen mode (is_frc p) s = Some (norm_files p).
Proof. exact fen_shredder_roundtrip_modulo_dead_files. Qed.
(* the printer's own spelling is the mix that forces no file letter: the shape is shared *)
Theorem C07_printer_spelling_is_a_mix : forall p, get_fen p = get_fen_mix false false false false p.
Proof. intros p. rewrite get_fen_is_with. reflexivity. Qed.

Print Assumptions C07_parse_validated.
Print Assumptions C07_validate_sound.
Print Assumptions C07_parse_consistent.
Print Assumptions C07_printed_fen_is_accepted.
Print Assumptions C07_printed_fen_of_a_reached_position_is_accepted.
Print Assumptions C07_fen_of_every_position_of_D_is_accepted.
Print Assumptions C07_fen_of_every_reached_position_is_accepted.
Print Assumptions C07_file_letter_spelling_denotes_the_same_position.
Print Assumptions C07_any_mix_of_spellings_denotes_the_same_position.
Print Assumptions C07_file_letter_spelling_of_a_reached_position.
Print Assumptions C07_printer_spelling_is_a_mix.
