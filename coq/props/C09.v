(* C09 -- move notation.  Full on the model over the property's domain (its quantifier says: standard mode on positions
   with standard castling geometry, Chess960 mode on all positions).
   Proved on the model: the shape of the printed string; square names are injective; in Chess960 mode the string
   determines the move (any position, any three-field move with squares on the board and a promotion piece that has
   a letter).  For every move the generator emits on a position passing `good_pos_b` (proofs/NotationMoves.v): the
   printed string is the specification's notation `UciSpec.move_str` of the decoded move (absolute origin and
   destination, promotion letter, castling as e1g1/e1c1/e8g8/e8c8 in standard mode and king-takes-rook in Chess960
   mode); distinct generated moves print differently (standard mode: under `std_geo`, a side that may castle has its
   king on the e-file, so the rewritten castling target cannot collide with a king step); the move parser resolves the
   printed string to the same move.  With C01's equivalence (the generated moves ARE the rules' legal moves) this covers every
   legal move of the rules: C09_every_legal_move_has_its_notation.  `std_geo` only asks for the king of a side that may castle
   to stand on the e-file (weaker than the property's standard geometry) and it is needed: C09_standard_geometry_is_needed is the
   position 5k2/8/8/8/8/8/8/5K1R w K, accepted in standard mode, where the king step f1g1 and castling both print "f1g1". *)
From Coq Require Import NArith ZArith List Bool String.
From Rawr Require Import Consts Bits Magic Position MoveGen MakeMove MakeStages Fen Uci Rules Abs UciSpec NotationFacts NotationMoves GenSane Closure EpRetro MovegenComplete.
Import ListNotations.
Local Open Scope N_scope.

Theorem C09_to_uci_shape : forall p m,
  to_uci p m =
    show_sq (if turn p then flip_sq (m_from m) else m_from m)
    ++ show_sq (let sq := if negb (is_frc p) && is_set (c_us p) (m_to m)
                          then (if file_of (m_from m) <? file_of (m_to m) then G1 else C1) else m_to m in
                if turn p then flip_sq sq else sq)
    ++ promo_suffix (m_promo m).
Proof. exact to_uci_shape. Qed.

Theorem C09_square_names_injective : forall s1 s2, s1 < 64 -> s2 < 64 -> show_sq s1 = show_sq s2 -> s1 = s2.
Proof. exact show_sq_inj. Qed.

Theorem C09_to_uci_frc_injective : forall p m1 m2,
  is_frc p = true -> m_from m1 < 64 -> m_to m1 < 64 -> m_from m2 < 64 -> m_to m2 < 64 -> promo_ok m1 -> promo_ok m2 ->
  to_uci p m1 = to_uci p m2 -> m1 = m2.
Proof. exact to_uci_frc_inj. Qed.

Theorem C09_printed_is_the_specified_notation : forall p, good_pos_b p = true -> std_geo p ->
  (forall m, In m (legal_moves p) -> to_uci p m = move_str (is_frc p) (abs_state p) (dec p m))
  /\ (forall m1 m2, In m1 (legal_moves p) -> In m2 (legal_moves p) -> to_uci p m1 = to_uci p m2 -> m1 = m2)
  /\ (forall m, In m (legal_moves p) -> find_move p (to_uci p m) = Some m).
Proof. exact good_pos_notation. Qed.
Example C09_premises_startpos : good_pos_b startpos = true /\ std_geo startpos.
Proof. split; [vm_compute; reflexivity|intros _ _; vm_compute; reflexivity]. Qed.

(* ---- over the rules' own list of legal moves (C01): every legal move of the rules is generated, printed exactly as the
   specification writes it, by no other legal move, and read back by the parser as that move *)
Theorem C09_every_legal_move_has_its_notation : forall p, Inv0 p -> ep_ok_b p = true -> std_geo p ->
  forall sm, In sm (legal (abs_state p)) ->
  exists m, In m (legal_moves p) /\ dec p m = sm
    /\ to_uci p m = move_str (is_frc p) (abs_state p) sm
    /\ find_move p (to_uci p m) = Some m
    /\ (forall m', In m' (legal_moves p) -> to_uci p m' = to_uci p m -> m' = m).
Proof.
  intros p I He SG sm Hsm. pose proof (i0_good p I) as G. pose proof (i0_cg p I) as CG.
  destruct (legal_generated p sm I He Hsm) as (m & Hm & Hd). exists m. split; [exact Hm|split; [exact Hd|]].
  split; [rewrite <- Hd; exact (to_uci_is_move_str p m G CG Hm)|].
  split; [exact (find_move_roundtrip p m G CG SG Hm)|].
  intros m' Hm' E. exact (to_uci_inj_legal p m' m G CG SG Hm' Hm E).
Qed.

(* outside the property's domain: standard mode on Chess960 geometry.  Two distinct generated moves print the same string. *)
Theorem C09_standard_geometry_is_needed :
  let p := match set_fen false false (lit "5k2/8/8/8/8/8/8/5K1R w K - 0 1"%string) with Some q => q | None => startpos end in
  is_frc p = false /\ ~ std_geo p
  /\ existsb (mv_eqb (mkMv 5 6 NOPIECE)) (legal_moves p) = true /\ existsb (mv_eqb (mkMv 5 7 NOPIECE)) (legal_moves p) = true
  /\ to_uci p (mkMv 5 6 NOPIECE) = to_uci p (mkMv 5 7 NOPIECE).
Proof.
  cbv zeta. split; [vm_compute; reflexivity|]. split.
  - intros H. unfold std_geo in H.
    assert (E : (5 = E1)%N); [|vm_compute in E; discriminate E].
    etransitivity; [|apply H; [vm_compute; reflexivity|left; vm_compute; reflexivity]]. vm_compute. reflexivity.
  - split; [vm_compute; reflexivity|split; vm_compute; reflexivity].
Qed.

Print Assumptions C09_to_uci_shape.
Print Assumptions C09_square_names_injective.
Print Assumptions C09_to_uci_frc_injective.
Print Assumptions C09_printed_is_the_specified_notation.
Print Assumptions C09_every_legal_move_has_its_notation.
Print Assumptions C09_standard_geometry_is_needed.
