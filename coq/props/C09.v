(* C09 -- move notation.  PARTIAL.
   Proved on the model: the shape of the printed string; square names are injective; in Chess960 mode the string
   determines the move (any position, any three-field move with squares on the board and a promotion piece that has
   a letter).  Standard mode on standard geometry (castling rewritten to the g/c file cannot collide with a king step)
   and the round trip through the parser are decided by the correspondence run on all legal moves of generated positions. *)
From Coq Require Import NArith ZArith List Bool.
From Rawr Require Import Consts Bits Magic Position MoveGen MakeMove Fen NotationFacts.
Import ListNotations.
Local Open Scope N_scope.

Theorem C09_to_uci_shape : forall p m,
  to_uci p m =
    show_sq (if turn p then flip_sq (m_from m) else m_from m)
    ++ show_sq (let sq := if negb (is_frc p) && is_set (c_us p) (m_to m)
                          then (if file_of (m_from m) <? file_of (m_to m) then G1 else C1) else m_to m in
                if turn p then flip_sq sq else sq)
    ++ promo_suffix (m_promo m).
Proof. exact to_uci_shape. Qed.

Theorem C09_square_names_injective : forall s1 s2, s1 < 64 -> s2 < 64 -> show_sq s1 = show_sq s2 -> s1 = s2.
Proof. exact show_sq_inj. Qed.

Theorem C09_to_uci_frc_injective : forall p m1 m2,
  is_frc p = true -> m_from m1 < 64 -> m_to m1 < 64 -> m_from m2 < 64 -> m_to m2 < 64 -> promo_ok m1 -> promo_ok m2 ->
  to_uci p m1 = to_uci p m2 -> m1 = m2.
Proof. exact to_uci_frc_inj. Qed.

Print Assumptions C09_to_uci_shape.
Print Assumptions C09_square_names_injective.
Print Assumptions C09_to_uci_frc_injective.
