(* C19 -- quiescence search is an exact, sound alpha-beta over the capture tree.
   qsearch: model of src/search/qsearch.rs (Search.v); qvalue: unpruned negamax value of the capture-only game
   (spec/GameTree.v): stand pat or any legal capture.  Proofs in proofs/AlphaBeta.v and proofs/SearchFacts.v. *)
From Coq Require Import NArith ZArith List Bool.
From Rawr Require Import Consts Bits Magic Position MoveGen MakeMove Eval TT Search GameTree AlphaBeta SearchFacts.
Local Open Scope Z_scope.

(* for every position, every window alpha < beta, every amount of fuel on which both computations finish:
   inside the window the value is exact; at or below alpha it is an upper bound; at or above beta a lower bound *)
Theorem C19_qsearch_sound : forall fuel p st alpha beta ply v st' m,
  alpha < beta -> qsearch fuel p st alpha beta ply = Some (v, st') -> qvalue fuel p = Some m ->
  (alpha < v < beta -> v = m) /\ (v <= alpha -> m <= v) /\ (beta <= v -> v <= m).
Proof. exact qsearch_sound. Qed.

Theorem C19_full_window_exact : forall fuel p st ply v st' m,
  qsearch fuel p st (- QINF) QINF ply = Some (v, st') -> qvalue fuel p = Some m -> - QINF < m < QINF -> v = m.
Proof. exact qsearch_full_window_exact. Qed.

(* the ordering used by the search is a permutation of the legal captures: nothing is dropped or duplicated *)
Theorem C19_ordering_is_permutation : forall p ms, Permutation.Permutation (sort_q p ms) ms.
Proof. exact sort_q_perm. Qed.

Print Assumptions C19_qsearch_sound.
Print Assumptions C19_full_window_exact.
Print Assumptions C19_ordering_is_permutation.
