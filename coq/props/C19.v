(* C19 -- quiescence search is an exact, sound alpha-beta over the capture tree.
   qsearch: model of src/search/qsearch.rs (Search.v); qvalue: unpruned negamax value of the capture-only game
   (spec/GameTree.v): stand pat or any legal capture.  Proofs in proofs/AlphaBeta.v and proofs/SearchFacts.v.
   The fuel is no hypothesis (proofs/FuelFacts.v): every capture removes a man, so on a position satisfying the invariant the
   quiescence search and the unpruned value are defined for every fuel above 32 (the total number of men), do not depend on
   it, and the three clauses hold for the value `qval p` so defined (C19_qsearch_sound_total). *)
From Coq Require Import NArith ZArith List Bool.
From Rawr Require Import Consts Bits Magic Position MoveGen MakeMove Eval TT Search MakeStages GameTree AlphaBeta SearchFacts Closure MenCount EpRetro FuelFacts.
Local Open Scope Z_scope.

(* for every position, every window alpha < beta, every amount of fuel on which both computations finish:
   inside the window the value is exact; at or below alpha it is an upper bound; at or above beta a lower bound *)
Theorem C19_qsearch_sound : forall fuel p st alpha beta ply v st' m,
  alpha < beta -> qsearch fuel p st alpha beta ply = Some (v, st') -> qvalue fuel p = Some m ->
  (alpha < v < beta -> v = m) /\ (v <= alpha -> m <= v) /\ (beta <= v -> v <= m).
Proof. exact qsearch_sound. Qed.

Theorem C19_full_window_exact : forall fuel p st ply v st' m,
  qsearch fuel p st (- QINF) QINF ply = Some (v, st') -> qvalue fuel p = Some m -> - QINF < m < QINF -> v = m.
Proof. exact qsearch_full_window_exact. Qed.

(* the ordering used by the search is a permutation of the legal captures: nothing is dropped or duplicated *)
Theorem C19_ordering_is_permutation : forall p ms, Permutation.Permutation (sort_q p ms) ms.
Proof. exact sort_q_perm. Qed.

(* ---- without "on which both computations finish": termination by the number of men, independence of the fuel *)
Theorem C19_qsearch_terminates : forall p st a b ply fuel, Inv16R p -> (32 < fuel)%nat -> qsearch fuel p st a b ply <> None.
Proof. exact qsearch_total_33. Qed.
Theorem C19_result_does_not_depend_on_fuel : forall f f' p st a b ply, Inv16R p -> (32 < f)%nat -> (32 < f')%nat ->
  qsearch f p st a b ply = qsearch f' p st a b ply.
Proof. exact qsearch_fuel_indep. Qed.
Theorem C19_qsearch_sound_total : forall fuel p st alpha beta ply, Inv16R p -> (32 < fuel)%nat -> alpha < beta ->
  exists v st', qsearch fuel p st alpha beta ply = Some (v, st') /\
    (alpha < v < beta -> v = qval p) /\ (v <= alpha -> qval p <= v) /\ (beta <= v -> v <= qval p).
Proof. exact qsearch_sound_total. Qed.
Theorem C19_full_window_exact_total : forall fuel p st ply, Inv16R p -> (32 < fuel)%nat -> - QINF < qval p < QINF ->
  exists st', qsearch fuel p st (- QINF) QINF ply = Some (qval p, st').
Proof. exact qsearch_full_window_total. Qed.
Theorem C19_a_capture_removes_a_man : forall u p m, Inv0 p -> In m (legal_captures p) -> (men (makemove u p m) < men p)%N.
Proof. exact capture_fewer_men. Qed.

Print Assumptions C19_qsearch_sound.
Print Assumptions C19_full_window_exact.
Print Assumptions C19_ordering_is_permutation.
Print Assumptions C19_qsearch_terminates.
Print Assumptions C19_result_does_not_depend_on_fuel.
Print Assumptions C19_qsearch_sound_total.
Print Assumptions C19_full_window_exact_total.
Print Assumptions C19_a_capture_removes_a_man.
