(* C12 -- a mate in one is found and played.  PARTIAL.
   Proved on the model: a node without legal moves returns -MATE_SCORE + ply when in check (so the mated successor of
   the root, at ply 1, is worth MATE_SCORE - 1 to the root) and the draw score otherwise, whatever window, depth and
   table; the table cannot hide this from the root's children being searched (the root is a PV node: no table
   cut-off, see nm_probe).  The root-level statement for arbitrary tables is decided by the correspondence run. *)
From Coq Require Import NArith ZArith List Bool.
From Rawr Require Import Consts Bits Magic Position MoveGen MakeMove Eval TT Search SearchFacts2.
Import ListNotations.
Local Open Scope Z_scope.

Theorem C12_no_legal_moves_value : forall rec p s ao alpha beta ply depth in_chk is_root cn ttm,
  legal_moves p = [] ->
  null_move rec p s is_root cn in_chk beta ply depth = Some (None, s) ->
  nm_moves rec p s ao alpha beta ply depth in_chk is_root cn ttm
  = Some ((if in_chk then - MATE_SCORE + ply else DRAW_SCORE), s).
Proof. exact no_legal_moves_value. Qed.

(* a node in check never tries the null move *)
Theorem C12_no_null_move_in_check : forall rec p s is_root cn beta ply depth,
  null_move rec p s is_root cn true beta ply depth = Some (None, s).
Proof. exact no_null_move_in_check. Qed.

Print Assumptions C12_no_legal_moves_value.
Print Assumptions C12_no_null_move_in_check.
