(* C12 -- a mate in one is found and played.
   Proved on the model, for EVERY table whose scores are within the mate bounds (TBnd), every history and every depth
   limit d >= 1 (C12_mate_in_one_is_played), and for the unlimited search (C12_mate_in_one_is_played_unlimited):
   if a generated move M of the root mates, the half-move clock is below 99, the mated position is no repetition of a
   position of the history, and the table never answers for the key of the mated position (NoKey: no entry under that
   key now; SafeN fuel: no position within `fuel` plies of the root that has a legal move carries that key, so none is ever
   written -- the engine never stores a mated node, so such an entry can only come from a 64-bit collision with this ONE key;
   the fuel may be the smallest for which the search returns, C12_mate_in_one_is_played_any_fuel), then the search
   answers with a mating move and EVERY reported score is MATE_SCORE - 1.  The table may otherwise hold anything:
   misleading entries for every other position, wrong mate distances left by earlier searches.  What makes the root robust
   is proved as a theorem of its own: a value strictly inside the window is honest (C12_value_inside_window_is_honest:
   between -MATE+ply and MATE-ply-1, and equal to -MATE+ply only at a node that IS mated) -- table cut-offs happen at
   zero-window nodes only, and a zero-window result that matters is searched again with an open window.
   The premise on the key cannot be dropped: C12_misleading_entry_under_the_mated_key is a run of the model on
   6k1/5ppp/8/8/8/8/8/R3K3 w with ONE bounded entry under the mated position's key, where the mate Ra8 is not found.
   (Property text: "whatever the transposition table contains" -- true of every table the engine itself can have
   produced, barring a key collision; false of an arbitrary foreign table.)
   Also: a node without legal moves returns -MATE_SCORE + ply when in check and the draw score otherwise, whatever
   window, depth and table. *)
From Coq Require Import NArith ZArith List Bool.
From Rawr Require Import Consts Bits Magic Position MoveGen MakeMove Eval TT Search SearchFacts2 EpRetro SearchBound WindowHonest MateInOne.
Import ListNotations.
Local Open Scope Z_scope.

Theorem C12_no_legal_moves_value : forall rec p s ao alpha beta ply depth in_chk is_root cn ttm,
  legal_moves p = [] ->
  null_move rec p s is_root cn in_chk beta ply depth = Some (None, s) ->
  nm_moves rec p s ao alpha beta ply depth in_chk is_root cn ttm
  = Some ((if in_chk then - MATE_SCORE + ply else DRAW_SCORE), s).
Proof. exact no_legal_moves_value. Qed.

(* a node in check never tries the null move *)
Theorem C12_no_null_move_in_check : forall rec p s is_root cn beta ply depth,
  null_move rec p s is_root cn true beta ply depth = Some (None, s).
Proof. exact no_null_move_in_check. Qed.

Theorem C12_value_inside_window_is_honest : forall (stopf : Stats -> bool) fuel plymax, plymax <= 599998 ->
  forall q s a b pl d cn v s', InvSR q -> TBnd (ss_tt s) -> 0 <= pl -> pl + Z.of_nat fuel <= plymax ->
  negamax stopf fuel q s a b pl d cn = Some (v, s') -> a < v < b ->
  - MATE_SCORE + pl <= v <= MATE_SCORE - pl - 1 /\ (v = - MATE_SCORE + pl -> legal_moves q = [] /\ in_check q = true).
Proof. exact negamax_whon. Qed.

Theorem C12_mate_in_one_is_played : forall d fuel p hist tt r M,
  InvSR p -> TBnd tt -> Z.of_nat fuel <= 599998 -> halfmoves p < 99 ->
  In M (legal_moves p) -> mates p M ->
  NoRep (makemove true p M) (hash (makemove true p M) :: hist) ->
  NoKey (hash (makemove true p M)) tt -> SafeN fuel (hash (makemove true p M)) p -> 1 <= d ->
  root (stop_of (LDepth d)) fuel p hist tt = Some r ->
  (exists bm, rr_best r = Some bm /\ In bm (legal_moves p) /\ mates p bm) /\
  (forall i, In i (rr_infos r) -> i_score i = MATE_SCORE - 1) /\ rr_infos r <> [].
Proof. exact mate_in_one_is_played. Qed.

Theorem C12_mate_in_one_is_played_unlimited : forall fuel p hist tt r M,
  InvSR p -> TBnd tt -> Z.of_nat fuel <= 599998 -> halfmoves p < 99 ->
  In M (legal_moves p) -> mates p M ->
  NoRep (makemove true p M) (hash (makemove true p M) :: hist) ->
  NoKey (hash (makemove true p M)) tt -> SafeN fuel (hash (makemove true p M)) p ->
  root (stop_of LNever) fuel p hist tt = Some r ->
  (exists bm, rr_best r = Some bm /\ In bm (legal_moves p) /\ mates p bm) /\
  (forall i, In i (rr_infos r) -> i_score i = MATE_SCORE - 1) /\ rr_infos r <> [].
Proof. exact mate_in_one_is_played_unlimited. Qed.

(* the premise on the tree may be taken at the smallest fuel for which the search returns *)
Theorem C12_mate_in_one_is_played_any_fuel : forall d fuel0 fuel p hist tt r0 r M,
  InvSR p -> TBnd tt -> Z.of_nat fuel0 <= 599998 -> halfmoves p < 99 ->
  In M (legal_moves p) -> mates p M ->
  NoRep (makemove true p M) (hash (makemove true p M) :: hist) ->
  NoKey (hash (makemove true p M)) tt -> SafeN fuel0 (hash (makemove true p M)) p -> 1 <= d ->
  root (stop_of (LDepth d)) fuel0 p hist tt = Some r0 -> (fuel0 <= fuel)%nat ->
  root (stop_of (LDepth d)) fuel p hist tt = Some r ->
  (exists bm, rr_best r = Some bm /\ In bm (legal_moves p) /\ mates p bm) /\
  (forall i, In i (rr_infos r) -> i_score i = MATE_SCORE - 1) /\ rr_infos r <> [].
Proof. exact mate_in_one_is_played_anyfuel. Qed.

(* a closed instance: for 6k1/5ppp/8/8/8/8/8/R3K3 w, a new table and depth limit 3 no premise is left (the tree premise is
   discharged by enumeration for fuel 3, which suffices for this search) *)
Theorem C12_closed_instance : forall fuel r, (3 <= fuel)%nat ->
  root (stop_of (LDepth 3)) fuel ex_pos [hash ex_pos] (tt_new 1) = Some r ->
  (exists bm, rr_best r = Some bm /\ In bm (legal_moves ex_pos) /\ mates ex_pos bm) /\
  (forall i, In i (rr_infos r) -> i_score i = MATE_SCORE - 1) /\ rr_infos r <> [].
Proof. exact ex_closed. Qed.

(* non-vacuity: every computable premise holds of 6k1/5ppp/8/8/8/8/8/R3K3 w - - 0 1 with Ra8, a new table, the history
   of a game that starts there; and the model's run on it reports 999999 three times and answers a1a8 *)
Theorem C12_premises_hold_somewhere :
  InvSR ex_pos /\ halfmoves ex_pos < 99 /\ In ex_M (legal_moves ex_pos) /\ mates ex_pos ex_M
  /\ ~ In ex_k [hash ex_pos] /\ NoKey ex_k (tt_new 1).
Proof. exact ex_premises. Qed.
Theorem C12_example_run :
  ex_show (root (stop_of (LDepth 3)) 50 ex_pos [hash ex_pos] (tt_new 1))
  = (Some ex_M, [(1, 999999); (2, 999999); (3, 999999)]).
Proof. exact ex_run. Qed.

(* the premise on the key is needed: one bounded entry under the mated position's key hides the mate *)
Theorem C12_misleading_entry_under_the_mated_key :
  TBnd ex_poisoned /\
  ex_show (root (stop_of (LDepth 3)) 50 ex_pos [hash ex_pos] ex_poisoned)
  = (Some (mkMv 0 48 NOPIECE), [(1, 265); (2, 237); (3, 252)]).
Proof. exact (conj ex_poisoned_TBnd ex_poisoned_run). Qed.

Print Assumptions C12_no_legal_moves_value.
Print Assumptions C12_no_null_move_in_check.
Print Assumptions C12_value_inside_window_is_honest.
Print Assumptions C12_mate_in_one_is_played.
Print Assumptions C12_mate_in_one_is_played_unlimited.
Print Assumptions C12_premises_hold_somewhere.
Print Assumptions C12_example_run.
Print Assumptions C12_misleading_entry_under_the_mated_key.
Print Assumptions C12_mate_in_one_is_played_any_fuel.
Print Assumptions C12_closed_instance.
