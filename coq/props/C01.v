(* C01 -- generated moves are exactly the legal moves.  PARTIAL.
   The full statement is `movegen_exact_statement` below; it is NOT proved (DESIGN section 6, C01: lemmas L5-L11 are
   open).  What is proved and listed here: the second half of the statement (NoDup: no move is emitted twice, and every
   promotion comes once per promotion piece and only on the last rank -- proofs/GenNoDup.v) for every position passing
   `good_pos_b`, and the closed lemmas the first half rests on: the slider lookups (C10), the one-step shifts without
   wrap-around, the pawn attack sets.  Until the refinement is closed, "equals the rules" is decided
   by the correspondence run against the executable specification spec/Rules.v (a test, not a proof). *)
From Coq Require Import NArith ZArith List Bool Permutation.
From Rawr Require Import Consts Bits Magic Position MoveGen MakeStages Rules Abs MagicFacts ShiftFacts AbsFacts MakeFacts GenSane GenNoDup NoKingCapture.
Import ListNotations.
Local Open Scope N_scope.

(* the statement at full strength: on every position of D the generator yields, without repetition, exactly the
   encodings of the legal moves of the rules *)
Definition movegen_exact_statement : Prop :=
  forall p, in_D p = true ->
    Permutation (legal_moves p) (spec_legal p) /\ NoDup (legal_moves p).

(* closed lemmas *)
Theorem C01_sliders_exact : forall sq occ,
  bishop_moves sq occ = batt sq occ /\ rook_moves sq occ = ratt sq occ /\ queen_moves sq occ = qatt sq occ.
Proof. exact sliders_exact. Qed.

Theorem C01_step_north_east : forall b i,
  N.testbit (north_east b) i = (i <? 64) && negb (i mod 8 =? 0) && (9 <=? i) && N.testbit b (i - 9).
Proof. exact testbit_north_east. Qed.
Theorem C01_step_north_west : forall b i,
  N.testbit (north_west b) i = (i <? 64) && negb (i mod 8 =? 7) && (7 <=? i) && N.testbit b (i - 7).
Proof. exact testbit_north_west. Qed.
Theorem C01_step_south_east : forall b i,
  N.testbit (south_east b) i = (i <? 64) && negb (i mod 8 =? 0) && N.testbit b (i + 7).
Proof. exact testbit_south_east. Qed.
Theorem C01_step_south_west : forall b i,
  N.testbit (south_west b) i = (i <? 64) && negb (i mod 8 =? 7) && N.testbit b (i + 9).
Proof. exact testbit_south_west. Qed.
Theorem C01_step_east : forall b i,
  N.testbit (east b) i = (i <? 64) && negb (i mod 8 =? 0) && (1 <=? i) && N.testbit b (i - 1).
Proof. exact testbit_east. Qed.
Theorem C01_step_west : forall b i, N.testbit (west b) i = (i <? 64) && negb (i mod 8 =? 7) && N.testbit b (i + 1).
Proof. exact testbit_west. Qed.
Theorem C01_step_north : forall b i, N.testbit (north b) i = (i <? 64) && (8 <=? i) && N.testbit b (i - 8).
Proof. exact testbit_north. Qed.
Theorem C01_step_south : forall b i, N.testbit (south b) i = N.testbit b (i + 8).
Proof. exact testbit_south. Qed.
Theorem C01_pawn_attacks_us : forall bb j,
  N.testbit (pawns_bb true bb) j
  = (j <? 64) && ((negb (j mod 8 =? 0) && (9 <=? j) && N.testbit bb (j - 9))
                  || (negb (j mod 8 =? 7) && (7 <=? j) && N.testbit bb (j - 7))).
Proof. exact testbit_pawns_us. Qed.
Theorem C01_pawn_attacks_them : forall bb j,
  N.testbit (pawns_bb false bb) j
  = (j <? 64) && ((negb (j mod 8 =? 0) && N.testbit bb (j + 7)) || (negb (j mod 8 =? 7) && N.testbit bb (j + 9))).
Proof. exact testbit_pawns_them. Qed.

(* "no move appears twice": the (piece, from, to, promo) quadruples handed to the callback are pairwise different, and so
   are the moves built from them (the move determines the piece: our man of that kind stands on the origin) *)
Theorem C01_no_callback_twice : forall p, Good p -> CastleGood p -> NoDup (move_generator p).
Proof. exact generator_NoDup. Qed.
Theorem C01_no_move_twice : forall p, good_pos_b p = true -> NoDup (legal_moves p).
Proof. exact good_pos_NoDup. Qed.

(* "every promotion appears once per promotion piece": a pawn move to the last rank carries a promotion piece 1..4 and
   all four are generated (once each, by NoDup); every other move carries none.  The premise on the en-passant rank is
   what `validate` guarantees (C07_validate_sound). *)
Theorem C01_promotions_all_four : forall p m, good_pos_b p = true -> (forall e, ep p = Some e -> rank_of e = 5) ->
  In m (legal_moves p) -> holds p (m_from m) false PAWN ->
  if rank_of (m_to m) =? 7
  then 1 <= m_promo m <= 4 /\ forall pr, 1 <= pr <= 4 -> In (mkMv (m_from m) (m_to m) pr) (legal_moves p)
  else m_promo m = NOPIECE.
Proof. exact good_pos_promotions. Qed.
Theorem C01_pieces_never_promote : forall p m k, good_pos_b p = true -> In m (legal_moves p) ->
  holds p (m_from m) false k -> k <> PAWN -> m_promo m = NOPIECE.
Proof. exact good_pos_pieces_never_promote. Qed.
Example C01_good_startpos : good_pos_b startpos = true /\ (forall e, ep startpos = Some e -> rank_of e = 5).
Proof. split; [vm_compute; reflexivity|intros e H; discriminate H]. Qed.

(* a piece of the first half: a generated move that lands on an enemy man attacks that square, so in a position whose
   side not to move is not in check no generated move captures a king *)
Theorem C01_generated_capture_attacks_its_target : forall p g, Good p -> CastleGood p -> In g (move_generator p) ->
  tb p (m_to (gen_mv g)) = true -> is_sq_attacked p (m_to (gen_mv g)) true = true.
Proof. intros p g G CG. exact (capture_attacks p G CG g). Qed.
Theorem C01_no_generated_move_captures_a_king : forall p g, Good p -> CastleGood p ->
  popcount (N.land (kings p) (c_them p)) = 1 -> in_check_them p = false -> In g (move_generator p) ->
  m_to (gen_mv g) <> lsb (N.land (kings p) (c_them p)).
Proof. exact no_king_capture. Qed.

(* non-vacuity of the statement's premise and an instance of its conclusion, by computation: the start position,
   "kiwipete", a Chess960 position with a pinned castling rook, an en-passant capture that would expose the king *)
Definition instance_ok (p : Position) : bool :=
  in_D p && forallb (fun m => existsb (mv_eqb m) (spec_legal p)) (legal_moves p)
  && forallb (fun m => existsb (mv_eqb m) (legal_moves p)) (spec_legal p)
  && Nat.eqb (length (legal_moves p)) (length (spec_legal p)).
Example C01_instance_startpos : instance_ok startpos = true.
Proof. vm_compute. reflexivity. Qed.

Print Assumptions C01_sliders_exact.
Print Assumptions C01_step_north_east.
Print Assumptions C01_step_north_west.
Print Assumptions C01_step_south_east.
Print Assumptions C01_step_south_west.
Print Assumptions C01_step_east.
Print Assumptions C01_step_west.
Print Assumptions C01_step_north.
Print Assumptions C01_step_south.
Print Assumptions C01_pawn_attacks_us.
Print Assumptions C01_pawn_attacks_them.
Print Assumptions C01_no_callback_twice.
Print Assumptions C01_no_move_twice.
Print Assumptions C01_promotions_all_four.
Print Assumptions C01_pieces_never_promote.
Print Assumptions C01_generated_capture_attacks_its_target.
Print Assumptions C01_no_generated_move_captures_a_king.
