(* C01 -- generated moves are exactly the legal moves.
   PROVED on the model (C01_movegen_exact): for every position satisfying the invariant `Inv0` of Closure.v (executable form
   `inv_b`: well-formed boards, one king a side, castling rights backed by rook and king, the side not to move not in check) and
   the en-passant consistency `ep_ok_b` (the en-passant square is consistent with the double push just played), standard chess
   or Chess960, either side to move: a move is generated IF AND ONLY IF it is the encoding of a legal move of the rules
   (spec/Rules.v: pseudo-legal by the rules' own lists and the mover's king not attacked in the rules' successor), and no move is
   generated twice; every promotion comes once per promotion piece.  Without `ep_ok_b` soundness is FALSE
   (C01_ep_consistency_is_needed: a parser-accepted, retro-inconsistent en-passant square).  Both premises are kept by every
   generated move and null move (C02), so they hold on every position reached by play from a position satisfying them, and they
   are evaluated (true) on every position of D the correspondence run uses.
   How: soundness = king safety of every block (PinFacts, LegalPin, LegalKing, LegalCastle, LegalEp, GenLegal) + pseudo-legality
   by the rules' lists (PseudoPieces, PseudoPawns, PseudoCastle) + the filter bridge (LegalBridge); completeness = the converse pin
   theory (LegalConv: a safe move's target is in `allowed`, a pinned man that moves safely stays on its pin line, double check
   leaves no safe non-king move), per block CompletePieces, CompletePawns, ConvEp, ConvKing, CompleteCastle, assembled in
   MovegenComplete; the Black frame by mirror symmetry of the rules (RulesMirror, SetTurn).
   The statement `movegen_exact_statement` below (over the executable domain test in_D of DESIGN section 4, as a Permutation of
   lists) is proved too: C01_movegen_exact_on_D (in_D implies inv_b and ep_ok_b: DomainInv.v; the rules list no move twice:
   PerftRules.legal_nodup).
   The tie of the model to the Rust generator is the correspondence run against the executable specification. *)
From Coq Require Import NArith ZArith List Bool Permutation String.
From Rawr Require Import Consts Bits Magic Position MoveGen MakeMove MakeStages Fen Uci Rules Abs MagicFacts ShiftFacts AbsFacts MakeFacts GenSane GenNoDup NoKingCapture
                         Closure EpRetro LegalKing LegalCastle LegalEp LegalBlocks GenLegal MovegenSound ConvKing MovegenComplete PerftRules DomainInv.
Import ListNotations.
Local Open Scope N_scope.

(* the statement at full strength: on every position of D the generator yields, without repetition, exactly the
   encodings of the legal moves of the rules *)
Definition movegen_exact_statement : Prop :=
  forall p, in_D p = true ->
    Permutation (legal_moves p) (spec_legal p) /\ NoDup (legal_moves p).

(* closed lemmas *)
Theorem C01_sliders_exact : forall sq occ,
  bishop_moves sq occ = batt sq occ /\ rook_moves sq occ = ratt sq occ /\ queen_moves sq occ = qatt sq occ.
Proof. exact sliders_exact. Qed.

Theorem C01_step_north_east : forall b i,
  N.testbit (north_east b) i = (i <? 64) && negb (i mod 8 =? 0) && (9 <=? i) && N.testbit b (i - 9).
Proof. exact testbit_north_east. Qed.
Theorem C01_step_north_west : forall b i,
  N.testbit (north_west b) i = (i <? 64) && negb (i mod 8 =? 7) && (7 <=? i) && N.testbit b (i - 7).
Proof. exact testbit_north_west. Qed.
Theorem C01_step_south_east : forall b i,
  N.testbit (south_east b) i = (i <? 64) && negb (i mod 8 =? 0) && N.testbit b (i + 7).
Proof. exact testbit_south_east. Qed.
Theorem C01_step_south_west : forall b i,
  N.testbit (south_west b) i = (i <? 64) && negb (i mod 8 =? 7) && N.testbit b (i + 9).
Proof. exact testbit_south_west. Qed.
Theorem C01_step_east : forall b i,
  N.testbit (east b) i = (i <? 64) && negb (i mod 8 =? 0) && (1 <=? i) && N.testbit b (i - 1).
Proof. exact testbit_east. Qed.
Theorem C01_step_west : forall b i, N.testbit (west b) i = (i <? 64) && negb (i mod 8 =? 7) && N.testbit b (i + 1).
Proof. exact testbit_west. Qed.
Theorem C01_step_north : forall b i, N.testbit (north b) i = (i <? 64) && (8 <=? i) && N.testbit b (i - 8).
Proof. exact testbit_north. Qed.
Theorem C01_step_south : forall b i, N.testbit (south b) i = N.testbit b (i + 8).
Proof. exact testbit_south. Qed.
Theorem C01_pawn_attacks_us : forall bb j,
  N.testbit (pawns_bb true bb) j
  = (j <? 64) && ((negb (j mod 8 =? 0) && (9 <=? j) && N.testbit bb (j - 9))
                  || (negb (j mod 8 =? 7) && (7 <=? j) && N.testbit bb (j - 7))).
Proof. exact testbit_pawns_us. Qed.
Theorem C01_pawn_attacks_them : forall bb j,
  N.testbit (pawns_bb false bb) j
  = (j <? 64) && ((negb (j mod 8 =? 0) && N.testbit bb (j + 7)) || (negb (j mod 8 =? 7) && N.testbit bb (j + 9))).
Proof. exact testbit_pawns_them. Qed.

(* "no move appears twice": the (piece, from, to, promo) quadruples handed to the callback are pairwise different, and so
   are the moves built from them (the move determines the piece: our man of that kind stands on the origin) *)
Theorem C01_no_callback_twice : forall p, Good p -> CastleGood p -> NoDup (move_generator p).
Proof. exact generator_NoDup. Qed.
Theorem C01_no_move_twice : forall p, good_pos_b p = true -> NoDup (legal_moves p).
Proof. exact good_pos_NoDup. Qed.

(* "every promotion appears once per promotion piece": a pawn move to the last rank carries a promotion piece 1..4 and
   all four are generated (once each, by NoDup); every other move carries none.  The premise on the en-passant rank is
   what `validate` guarantees (C07_validate_sound). *)
Theorem C01_promotions_all_four : forall p m, good_pos_b p = true -> (forall e, ep p = Some e -> rank_of e = 5) ->
  In m (legal_moves p) -> holds p (m_from m) false PAWN ->
  if rank_of (m_to m) =? 7
  then 1 <= m_promo m <= 4 /\ forall pr, 1 <= pr <= 4 -> In (mkMv (m_from m) (m_to m) pr) (legal_moves p)
  else m_promo m = NOPIECE.
Proof. exact good_pos_promotions. Qed.
Theorem C01_pieces_never_promote : forall p m k, good_pos_b p = true -> In m (legal_moves p) ->
  holds p (m_from m) false k -> k <> PAWN -> m_promo m = NOPIECE.
Proof. exact good_pos_pieces_never_promote. Qed.
Example C01_good_startpos : good_pos_b startpos = true /\ (forall e, ep startpos = Some e -> rank_of e = 5).
Proof. split; [vm_compute; reflexivity|intros e H; discriminate H]. Qed.

(* a piece of the first half: a generated move that lands on an enemy man attacks that square, so in a position whose
   side not to move is not in check no generated move captures a king *)
Theorem C01_generated_capture_attacks_its_target : forall p g, Good p -> CastleGood p -> In g (move_generator p) ->
  tb p (m_to (gen_mv g)) = true -> is_sq_attacked p (m_to (gen_mv g)) true = true.
Proof. intros p g G CG. exact (capture_attacks p G CG g). Qed.
Theorem C01_no_generated_move_captures_a_king : forall p g, Good p -> CastleGood p ->
  popcount (N.land (kings p) (c_them p)) = 1 -> in_check_them p = false -> In g (move_generator p) ->
  m_to (gen_mv g) <> lsb (N.land (kings p) (c_them p)).
Proof. exact no_king_capture. Qed.

(* ---- the king-safety half of soundness: on a position satisfying the invariant (`Inv0`: well-formed boards, one king a
   side, castling rights backed by rook and king, the side not to move not in check; executable form `inv_b`) whose
   en-passant state is consistent with the double push just played (`ep_ok_b`), NO move the generator emits leaves the
   mover's own king attacked -- for both instances of makemove.  Proof: the legality test of the successor is carried back
   into the mover's frame (LegalBase.v); `gi_allowed` is the checking ray / the checker / empty (PinFacts.v: allowed_slider,
   allowed_leaper), the pin sets are sound and complete for "only man between king and enemy slider" (pins_sound,
   pins_complete), a man leaving a king line sideways lands on no king line (RayGeo.v sweeps); per block LegalPin.v,
   LegalBlocks.v, LegalKing.v, LegalCastle.v, LegalEp.v. *)
Theorem C01_no_generated_move_leaves_the_king_attacked : forall u p m,
  Inv0 p -> ep_ok_b p = true -> In m (legal_moves p) -> in_check_them (makemove u p m) = false.
Proof. exact gen_legal. Qed.
Theorem C01_king_steps_are_safe : forall u p g, Inv0 p -> In g (king_steps p) -> in_check_them (makemove u p (gen_mv g)) = false.
Proof. exact king_step_legal. Qed.
Theorem C01_castling_is_safe : forall u p g, Inv0 p -> In g (blk_castle_k p) \/ In g (blk_castle_q p) ->
  in_check_them (makemove u p (gen_mv g)) = false.
Proof. intros u p g I [H|H]; [exact (castle_k_legal u p g I H)|exact (castle_q_legal u p g I H)]. Qed.
Theorem C01_en_passant_is_safe : forall u p g, Inv0 p -> ep_ok_b p = true -> In g (blk_ep p) ->
  in_check_them (makemove u p (gen_mv g)) = false.
Proof. exact ep_legal. Qed.
(* ---- soundness in full: every move the generator emits is a legal move of the rules' own lists (spec/Rules.v: pseudo-legal
   and the mover's king not attacked in the rules' successor), whoever is to move *)
Theorem C01_generated_moves_are_pseudo_legal : forall p m, Inv0 p -> In m (legal_moves p) -> In (dec p m) (pseudo_moves (abs_state p)).
Proof. exact generated_pseudo. Qed.
Theorem C01_movegen_sound : forall p m, Inv0 p -> ep_ok_b p = true -> In m (legal_moves p) -> In m (spec_legal p).
Proof. exact movegen_sound. Qed.
(* ---- completeness and the equivalence *)
Theorem C01_movegen_complete : forall p sm, Inv0 p -> ep_ok_b p = true -> In sm (legal (abs_state p)) -> In (enc p sm) (legal_moves p).
Proof. exact movegen_complete. Qed.
Theorem C01_movegen_exact : forall p, Inv0 p -> ep_ok_b p = true ->
  (forall m, In m (legal_moves p) <-> In m (spec_legal p)) /\ NoDup (legal_moves p).
Proof. exact movegen_exact. Qed.
Theorem C01_movegen_exact_as_permutation : forall p, Inv0 p -> ep_ok_b p = true ->
  Permutation (legal_moves p) (spec_legal p) /\ NoDup (legal_moves p).
Proof.
  intros p I He. destruct (movegen_exact p I He) as (Hiff & Hnd). split; [|exact Hnd].
  apply NoDup_Permutation; [exact Hnd| |exact Hiff].
  (* the specification lists no move twice, and the encoding is injective on it *)
  pose proof (decoded_moves_perm p I He (legal_nodup (abs_state p))) as Hp.
  assert (Hmap : Permutation (map (enc p) (map (dec p) (legal_moves p))) (spec_legal p)) by (unfold spec_legal; apply Permutation_map; exact Hp).
  apply (Permutation_NoDup Hmap). rewrite map_map.
  assert (E : map (fun x => enc p (dec p x)) (legal_moves p) = legal_moves p).
  { rewrite <- (map_id (legal_moves p)) at 2. apply map_ext_in. intros m Hm. exact (LegalBridge.enc_dec_generated p m (i0_good p I) (i0_cg p I) Hm). }
  rewrite E. exact Hnd.
Qed.
Theorem C01_executable_premises_sound : forall p, inv_b p = true -> Inv0 p.
Proof. intros p H. exact (Inv_Inv0 p (inv_b_sound p H)). Qed.

(* ---- the statement at full strength, over the executable domain test in_D of DESIGN section 4: in_D implies the invariant and
   the en-passant consistency (DomainInv.v: validate's tests, consistent boards, rights geometry, ep_retro) *)
Theorem C01_domain_implies_premises : forall p, in_D p = true -> inv_b p = true /\ ep_ok_b p = true.
Proof. intros p H. split; [exact (in_D_inv p H)|exact (in_D_ep_ok p H)]. Qed.
Theorem C01_movegen_exact_on_D : movegen_exact_statement.
Proof.
  intros p H. destruct (C01_domain_implies_premises p H) as (H1 & H2).
  exact (C01_movegen_exact_as_permutation p (C01_executable_premises_sound p H1) H2).
Qed.

(* ---- completeness, first block: a king step that does not leave the king attacked is generated (and conversely) *)
Theorem C01_king_steps_complete : forall u p b, Inv0 p ->
  let k := lsb (N.land (kings p) (c_us p)) in
  b < 64 -> N.testbit (adjacent (bit k)) b = true -> ub p b = false -> b <> tksq p ->
  (In (KING, k, b, NOPIECE) (king_steps p) <-> in_check_them (makemove u p (mkMv k b NOPIECE)) = false).
Proof. exact king_step_iff. Qed.

(* the en-passant consistency is kept by every generated move and by the null move, so it holds on every position reached
   by play from a position satisfying it *)
Theorem C01_ep_consistency_is_kept : forall u p m, Inv0 p -> In m (legal_moves p) -> ep_ok_b (makemove u p m) = true.
Proof. exact ep_ok_step. Qed.
(* ... and it is needed: a position the FEN parser accepts (it passes `invs_b`) whose en-passant square cannot have arisen
   by play, on which the generator emits e5xd6 e.p. and the mover's king on b3 is then attacked by the bishop on f7.
   (The same input trips the engine's own validity assertion after the move in the checked build; such positions are
   outside the domain D of the property.) *)
Definition retro_illegal_b : bool :=
  match set_fen false false (lit "8/5b2/8/3pP3/8/1K6/8/7k w - d6 0 1"%string) with
  | Some p => invs_b p && negb (ep_ok_b p) && existsb (fun m => in_check_them (makemove true p m)) (legal_moves p)
  | None => false
  end.
Theorem C01_ep_consistency_is_needed : exists p m,
  invs_b p = true /\ ep_ok_b p = false /\ In m (legal_moves p) /\ in_check_them (makemove true p m) = true.
Proof.
  assert (H : retro_illegal_b = true) by (vm_compute; reflexivity). unfold retro_illegal_b in H.
  destruct (set_fen false false (lit "8/5b2/8/3pP3/8/1K6/8/7k w - d6 0 1"%string)) as [p|]; [|discriminate].
  apply andb_true_iff in H. destruct H as [H H3]. apply andb_true_iff in H. destruct H as [H1 H2].
  apply existsb_exists in H3. destruct H3 as (m & Hm & Hc). apply negb_true_iff in H2.
  exists p, m. repeat split; assumption.
Qed.
Example C01_premises_startpos : inv_b startpos = true /\ ep_ok_b startpos = true.
Proof. split; vm_compute; reflexivity. Qed.

(* non-vacuity of the statement's premise and an instance of its conclusion, by computation: the start position,
   "kiwipete", a Chess960 position with a pinned castling rook, an en-passant capture that would expose the king *)
Definition instance_ok (p : Position) : bool :=
  in_D p && forallb (fun m => existsb (mv_eqb m) (spec_legal p)) (legal_moves p)
  && forallb (fun m => existsb (mv_eqb m) (legal_moves p)) (spec_legal p)
  && Nat.eqb (List.length (legal_moves p)) (List.length (spec_legal p)).
Example C01_instance_startpos : instance_ok startpos = true.
Proof. vm_compute. reflexivity. Qed.

Print Assumptions C01_sliders_exact.
Print Assumptions C01_step_north_east.
Print Assumptions C01_step_north_west.
Print Assumptions C01_step_south_east.
Print Assumptions C01_step_south_west.
Print Assumptions C01_step_east.
Print Assumptions C01_step_west.
Print Assumptions C01_step_north.
Print Assumptions C01_step_south.
Print Assumptions C01_pawn_attacks_us.
Print Assumptions C01_pawn_attacks_them.
Print Assumptions C01_no_callback_twice.
Print Assumptions C01_no_move_twice.
Print Assumptions C01_promotions_all_four.
Print Assumptions C01_pieces_never_promote.
Print Assumptions C01_generated_capture_attacks_its_target.
Print Assumptions C01_no_generated_move_captures_a_king.
Print Assumptions C01_no_generated_move_leaves_the_king_attacked.
Print Assumptions C01_king_steps_are_safe.
Print Assumptions C01_castling_is_safe.
Print Assumptions C01_en_passant_is_safe.
Print Assumptions C01_ep_consistency_is_kept.
Print Assumptions C01_ep_consistency_is_needed.
Print Assumptions C01_generated_moves_are_pseudo_legal.
Print Assumptions C01_movegen_sound.
Print Assumptions C01_king_steps_complete.
Print Assumptions C01_movegen_complete.
Print Assumptions C01_movegen_exact.
Print Assumptions C01_movegen_exact_as_permutation.
Print Assumptions C01_executable_premises_sound.
Print Assumptions C01_domain_implies_premises.
Print Assumptions C01_movegen_exact_on_D.
