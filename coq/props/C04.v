(* C04 -- position key.
   Proved:
   * the key recomputed from scratch is a function of the 8x8 specification state alone (KeySpec.spec_key of
     Abs.abs_state): it cannot depend on the perspective the position is stored from, on the move counters, or on the
     path that led to the position;
   * the key predicted for a move (zobrist.rs predict_hash) is the key recomputed on the position after the move, and
     makemove stores exactly that prediction: the invariant "stored key = recomputed key" survives every move of every
     kind (quiet, capture, double push, en passant, promotion, castling in both geometries) that passes the executable
     test MakeStages.key_move_b, and every null move;
   * the minimum distance of the key code on the tables regenerated from zobrist.rs (positions differing in 1..4
     features have different keys).
   The correspondence run evaluates key_move_b (it must be true) on every legal move it generates; that every legal move
   of every position of D passes it is not proved. *)
From Coq Require Import NArith ZArith List Bool.
From Rawr Require Import Consts Bits Magic Position MoveGen MakeMove MakeStages Rules Abs KeySpec KeyFacts HashFacts KeyAbs KeyMove GenSane Closure ClosureNull EpRetro GenLegal Uci SessionInv SessionKeys.
Import ListNotations.
Local Open Scope N_scope.

(* ALLKEYS = the 768 piece-square keys, 8 en-passant-file keys, 4 castling keys and the turn key.  The key of a
   position is the XOR of the keys of the features present, so the keys of two positions XOR to the XOR of the
   keys of the features in which they differ: if they differ in 1..4 features the keys differ. *)
Theorem C04_key_min_distance :
  forall s : list N, sub s ALLKEYS -> (1 <= length s <= 4)%nat -> xors s <> 0.
Proof. exact key_min_distance. Qed.

Theorem C04_key_table_size : length ALLKEYS = 781%nat.
Proof. exact allkeys_length. Qed.

(* null moves keep the invariant "maintained key = key recomputed from scratch" (all boards below 2^64) *)
Theorem C04_makenull_hash : forall p, BB8 p -> hash p = calculate_hash p -> hash (makenull p) = calculate_hash (makenull p).
Proof. exact makenull_hash. Qed.

(* the recomputed key is the specification's key of the abstract state: XOR of one key per man on its absolute square,
   one per en-passant file, one per castling right held, one when Black is to move *)
Theorem C04_key_is_a_function_of_the_position :
  forall p, BB8 p -> WF p -> (forall e, ep p = Some e -> e < 64) -> calculate_hash p = spec_key (abs_state p).
Proof. exact key_of_abs. Qed.

(* the predicted key is the key of the position after the move; u = whether makemove also stores it *)
Theorem C04_predicted_key_is_recomputed_key :
  forall u p m, key_move_b p m = true -> predict_hash p m = calculate_hash (makemove u p m).
Proof. exact predict_correct. Qed.

Theorem C04_makemove_stores_prediction : forall p m, hash (makemove true p m) = predict_hash p m.
Proof. exact makemove_stores_prediction. Qed.

(* one step of the invariant over move sequences *)
Theorem C04_key_invariant_step :
  forall p m, key_move_b p m = true -> hash (makemove true p m) = calculate_hash (makemove true p m).
Proof. exact key_invariant_step. Qed.

(* NO per-move premise: on a position passing good_pos_b, every generated move keeps "stored key = recomputed key" *)
Theorem C04_every_generated_move_keeps_the_key : forall p m,
  good_pos_b p = true -> In m (legal_moves p) ->
  predict_hash p m = calculate_hash (makemove true p m) /\ hash (makemove true p m) = calculate_hash (makemove true p m).
Proof. intros p m H Hm. split; [exact (good_pos_keys true p m H Hm)|exact (good_pos_key_invariant p m H Hm)]. Qed.

(* non-vacuous: the start position, a double push, a knight move; castling and en passant reached by play *)
Definition after (ms : list Mv) : Position := fold_left (makemove true) ms startpos.
Definition castle_line : list Mv :=
  [mkMv 12 28 NOPIECE; mkMv 12 28 NOPIECE; mkMv 6 21 NOPIECE; mkMv 6 21 NOPIECE; mkMv 5 26 NOPIECE; mkMv 5 26 NOPIECE].
Example C04_premises_example :
  key_move_b startpos (mkMv 12 28 NOPIECE) = true /\ key_move_b startpos (mkMv 6 21 NOPIECE) = true
  /\ key_move_b (after castle_line) (mkMv 4 7 NOPIECE) = true
  /\ key_move_b (after [mkMv 12 28 NOPIECE; mkMv 8 16 NOPIECE; mkMv 28 36 NOPIECE; mkMv 11 27 NOPIECE]) (mkMv 36 43 NOPIECE) = true.
Proof. repeat split; vm_compute; reflexivity. Qed.

(* ---- along every sequence of generated legal moves from a position satisfying the invariant (Closure.v): the stored
   key is the recomputed key, and the recomputed key is the specification's key of the abstract state reached *)
Theorem C04_key_invariant_along_every_sequence : forall ms p, Inv p -> legal_seq p ms ->
  let q := fold_left (makemove true) ms p in
  hash q = calculate_hash q /\ calculate_hash q = KeySpec.spec_key (abs_state q).
Proof. exact run_keys. Qed.

(* ---- the property's first sentence: after any sequence of generated legal moves AND null moves (the side passing not in
   check) from a position satisfying the invariant, the maintained key is the recomputed key, which is the specification's
   key of the abstract state reached -- a function of placement, side to move, rights held and en-passant file only
   (C04_key_is_a_function_of_the_position), hence independent of the order of moves, the counters and the frame *)
Theorem C04_key_invariant_along_moves_and_null_moves : forall os p, Inv p -> legal_ops p os ->
  let q := fold_left play_op os p in
  hash q = calculate_hash q /\ calculate_hash q = KeySpec.spec_key (abs_state q).
Proof. exact ops_keys. Qed.

(* ---- the same with no legality premise on the moves (GenLegal.v): along every sequence of moves the generator emits *)
Theorem C04_key_invariant_along_every_sequence_of_generated_moves : forall ms p, InvR p -> gen_seq p ms ->
  let q := fold_left (makemove true) ms p in
  hash q = calculate_hash q /\ calculate_hash q = KeySpec.spec_key (abs_state q).
Proof. exact gen_run_keys. Qed.

(* at the level of the command loop: in every state reached along any script (position lines within D) the stored key is the
   recomputed key and the specification's key of the abstract position *)
Theorem C04_key_invariant_in_every_session_state : forall mode lines s s',
  SessInv s -> script_dom mode s lines -> Reached mode s lines s' ->
  hash (u_pos s') = calculate_hash (u_pos s') /\ calculate_hash (u_pos s') = KeySpec.spec_key (abs_state (u_pos s')).
Proof. exact session_keys. Qed.

Print Assumptions C04_key_min_distance.
Print Assumptions C04_makenull_hash.
Print Assumptions C04_key_table_size.
Print Assumptions C04_key_is_a_function_of_the_position.
Print Assumptions C04_predicted_key_is_recomputed_key.
Print Assumptions C04_makemove_stores_prediction.
Print Assumptions C04_key_invariant_step.
Print Assumptions C04_every_generated_move_keeps_the_key.
Print Assumptions C04_key_invariant_along_every_sequence.
Print Assumptions C04_key_invariant_along_moves_and_null_moves.
Print Assumptions C04_key_invariant_along_every_sequence_of_generated_moves.
Print Assumptions C04_key_invariant_in_every_session_state.
