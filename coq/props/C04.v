(* C04 -- position key.  Proved: the minimum distance of the key code on the tables regenerated from zobrist.rs.
   Proved as well: the null move keeps incremental = recomputed.
   PARTIAL: "incremental = recomputed" for real moves and "key = XOR of the features present" are checked by the correspondence
   run (every legal move of sampled positions, whole play-outs), their proofs are not closed yet. *)
From Coq Require Import NArith ZArith List Bool.
From Rawr Require Import Consts Bits Magic Position MoveGen MakeMove KeyFacts HashFacts.
Import ListNotations.
Local Open Scope N_scope.

(* ALLKEYS = the 768 piece-square keys, 8 en-passant-file keys, 4 castling keys and the turn key.  The key of a
   position is the XOR of the keys of the features present, so the keys of two positions XOR to the XOR of the
   keys of the features in which they differ: if they differ in 1..4 features the keys differ. *)
Theorem C04_key_min_distance :
  forall s : list N, sub s ALLKEYS -> (1 <= length s <= 4)%nat -> xors s <> 0.
Proof. exact key_min_distance. Qed.

Theorem C04_key_table_size : length ALLKEYS = 781%nat.
Proof. exact allkeys_length. Qed.

(* null moves keep the invariant "maintained key = key recomputed from scratch" (all boards below 2^64) *)
Theorem C04_makenull_hash : forall p, BB8 p -> hash p = calculate_hash p -> hash (makenull p) = calculate_hash (makenull p).
Proof. exact makenull_hash. Qed.

Print Assumptions C04_key_min_distance.
Print Assumptions C04_makenull_hash.
Print Assumptions C04_key_table_size.
