(* C08 -- counting, captures, perft.  PARTIAL.
   Proved on the model: popcount = number of squares enumerated (the link between the counter's arithmetic and the
   generator's lists), slider counts = slider list lengths, perft's recursion over the generated moves with the bulk
   counter at depth 1, the capture list = the generated list filtered in order.  count_moves = length (legal_moves) for
   the pawn / king / castling blocks, is_capture = the rules' capture relation and the attack queries = the rules'
   attack relation are decided by the correspondence run against spec/Rules.v. *)
From Coq Require Import NArith ZArith List Bool.
From Rawr Require Import Consts Bits Magic Position MoveGen MakeMove MakeStages Rules Abs NotationFacts KeyAbs AttackFacts AttackAbs CountFacts AttackSets CaptureFacts RaySym Closure EpRetro PerftRules.
Import ListNotations.
Local Open Scope N_scope.

Theorem C08_popcount_length_bits : forall b, popcount b = N.of_nat (length (bits b)).
Proof. exact popcount_length_bits. Qed.
Theorem C08_count_sliders_eq : forall piece att p froms targets,
  count_sliders att p froms targets = N.of_nat (length (slider_moves piece att p froms targets)).
Proof. exact count_sliders_eq. Qed.
Theorem C08_perft_unfold : forall d p,
  perft (S (S d)) p = fold_left (fun acc m => acc + perft (S d) (makemove false p m)) (legal_moves p) 0.
Proof. exact perft_unfold. Qed.
Theorem C08_perft_one : forall p, perft 1 p = count_moves p.
Proof. exact perft_one. Qed.
Theorem C08_legal_captures_is_filter : forall p,
  legal_captures p = map gen_mv (filter (fun x : Gen => let '(piece, _, to, _) := x in
      is_set (c_them p) to || ((piece =? PAWN) && match ep p with Some e => to =? e | None => false end)) (move_generator p)).
Proof. exact legal_captures_is_filter. Qed.

(* the bulk counter counts exactly the moves the generator emits, on every position *)
Theorem C08_count_moves_is_number_of_legal_moves : forall p, count_moves p = N.of_nat (length (legal_moves p)).
Proof. exact count_moves_is_number_of_legal_moves. Qed.
Theorem C08_perft_one_is_number_of_legal_moves : forall p, perft 1 p = N.of_nat (length (legal_moves p)).
Proof. intros p. rewrite perft_one. apply count_moves_is_number_of_legal_moves. Qed.

(* is_sq_attacked = Rules.attacked on the abstract board (spec_attacked maps the relative square and the side to the
   absolute square and colour) *)
Theorem C08_attack_query_is_the_rules : forall p sq us,
  WF p -> BBp p -> sq < 64 -> popcount (N.land (kings p) (get_side p us)) = 1 ->
  is_sq_attacked p sq us = spec_attacked p sq us.
Proof. exact attack_query_is_the_rules. Qed.

Theorem C08_attack_query_premises : forall p, attack_pre_b p = true ->
  forall sq us, sq < 64 -> is_sq_attacked p sq us = spec_attacked p sq us.
Proof. exact attack_query_premises. Qed.

(* the set-valued queries: "any square of this set", "which squares of this set", "is either side in check" *)
Theorem C08_set_query_is_the_rules : forall p bb us, attack_pre_b p = true -> bb < TWO64 ->
  is_bb_attacked p bb us = existsb (fun sq => spec_attacked p sq us) (bits bb).
Proof. exact is_bb_attacked_rules. Qed.
Theorem C08_attacked_subset_is_the_rules : forall p mask us x, attack_pre_b p = true -> x < 64 ->
  N.testbit (get_attacked p mask us) x = N.testbit mask x && spec_attacked p x us.
Proof. exact get_attacked_rules. Qed.
Theorem C08_in_check_is_the_rules : forall p, attack_pre_b p = true ->
  in_check p = spec_attacked p (lsb (N.land (kings p) (c_us p))) false
  /\ in_check_them p = spec_attacked p (lsb (N.land (kings p) (c_them p))) true.
Proof. intros p H. split; [exact (in_check_is_attacked_king p H)|exact (in_check_them_is_attacked_king p H)]. Qed.

(* the capture-only generator returns exactly the generated moves that capture under the rules (en passant included,
   castling excluded), in generation order, and the capture test classifies every generated move as the rules do *)
Theorem C08_captures_are_the_capturing_moves : forall p, good_pos_b p = true ->
  legal_captures p = filter (fun m => captures (abs_state p) (dec p m)) (legal_moves p)
  /\ forall m, In m (legal_moves p) -> is_capture p (m_from m) (m_to m) = captures (abs_state p) (dec p m).
Proof. exact good_pos_captures. Qed.

(* slider attacks are symmetric for every occupancy: b is hit from a iff a is hit from b *)
Theorem C08_slider_attacks_symmetric : forall a b occ, a < 64 -> b < 64 ->
  (N.testbit (batt a occ) b = true -> N.testbit (batt b occ) a = true)
  /\ (N.testbit (ratt a occ) b = true -> N.testbit (ratt b occ) a = true).
Proof. intros a b occ Ha Hb. split; [exact (batt_sym a b occ Ha Hb)|exact (ratt_sym a b occ Ha Hb)]. Qed.

(* ---- against the rules' own tree: on every position satisfying the invariant and the en-passant consistency, perft to any
   depth (bulk counter at depth 1 included) is the number of leaves of the legal move tree of the RULES (spec/Rules.v), and
   count_moves is the number of legal moves of the rules -- by C01's equivalence, the refinement C02 and the closure of the
   invariant, with the rules listing no move twice (PerftRules.v) *)
Theorem C08_perft_is_the_rules_leaf_count : forall d p, Inv0 p -> ep_ok_b p = true ->
  Z.of_N (perft d p) = leaves d (abs_state p).
Proof. exact perft_is_rules_leaves. Qed.
Theorem C08_count_moves_is_the_rules_count : forall p, Inv0 p -> ep_ok_b p = true ->
  count_moves p = N.of_nat (length (legal (abs_state p))).
Proof. exact count_moves_is_rules_count. Qed.

Example C08_attack_example : attack_pre_b startpos = true /\ attack_pre_b (makenull startpos) = true.
Proof. split; vm_compute; reflexivity. Qed.

Print Assumptions C08_popcount_length_bits.
Print Assumptions C08_attack_query_is_the_rules.
Print Assumptions C08_attack_query_premises.
Print Assumptions C08_count_moves_is_number_of_legal_moves.
Print Assumptions C08_perft_one_is_number_of_legal_moves.
Print Assumptions C08_count_sliders_eq.
Print Assumptions C08_perft_unfold.
Print Assumptions C08_perft_one.
Print Assumptions C08_legal_captures_is_filter.
Print Assumptions C08_set_query_is_the_rules.
Print Assumptions C08_attacked_subset_is_the_rules.
Print Assumptions C08_in_check_is_the_rules.
Print Assumptions C08_captures_are_the_capturing_moves.
Print Assumptions C08_slider_attacks_symmetric.
Print Assumptions C08_perft_is_the_rules_leaf_count.
Print Assumptions C08_count_moves_is_the_rules_count.
