(* C15 -- no crash on well-formed commands: what is PROVED is the command layer of the model (Uci.v):
   the only line that can make `step` panic is `position` with a FEN the parser rejects (outside the property:
   well-formed scripts carry valid FENs); and the SEARCH of the model never gets stuck: on every position satisfying the invariant,
   with any table that has at least one slot, `root`, `negamax` and `qsearch` return for every limit (explicit recursion-depth bounds,
   SearchTotal.v / FuelFacts.v) -- the only way to `None` left in the model is a zero-length table (division by zero in the slot
   index: the setoption handlers clamp the size to >= 1 MB).  PARTIAL by nature: arithmetic traps inside the Rust code, the real
   stack depth (the bound is a recursion depth of the model, tens of thousands in the worst case of mutual checks), memory and OS
   behaviour are covered by running both binaries on generated scripts.
   SESSION LEVEL (proofs/SessionInv.v): along EVERY script the state of the command loop stays in the invariant SessInv (position in
   the domain D, table scores bounded, table length = the slots of the Hash option (so never zero), Hash within 1..4096, the
   position's Chess960 flag = the option's), starting from the state phase 1 hands over for any sequence of setoption lines;
   the only command that can panic is `position` with a FEN the parser rejects, at every point of every script; the side
   condition is on the FEN text of `position` lines only (accepted and in D: the parser accepts some retro-inconsistent
   en-passant squares outside D, DESIGN section 11) -- scripts whose position lines say `startpos` need no condition at all. *)
From Coq Require Import NArith ZArith List Bool String.
From Rawr Require Import Consts Bits Magic Position MoveGen MakeMove Fen Eval TT Search Uci UciFacts MakeStages Closure MenCount EpRetro SearchTotal FuelFacts SearchBound SessionInv.
Import ListNotations.
Local Open Scope N_scope.

Theorem C15_step_no_panic_unless_position : forall mode s c args site,
  step mode s (c :: args) = Panic site -> tok_is c "position" = true.
Proof. exact step_no_panic_unless_position. Qed.

Theorem C15_position_panics_iff_fen_rejected : forall mode toks p,
  position_cmd mode toks p = None <->
  set_fen mode (is_frc p)
    (fst (match toks with
          | t :: rest => if tok_is t "startpos" then (lit "startpos", tl rest)
                         else if tok_is t "fen" then (let '(f, r) := take_fen rest [] in (trim_end f, r)) else ([], rest)
          | [] => ([], [])
          end)) = None.
Proof. exact position_panics_iff_fen_rejected. Qed.

(* the search does not get stuck: termination with explicit bounds (any stop predicate, window, ply, depth, history) *)
Theorem C15_root_search_returns : forall (stopf : Stats -> bool) p hist tt fuel,
  InvSR p -> t_len tt <> 0%N -> (0 <= halfmoves p)%Z -> (61442 <= Z.of_nat fuel)%Z -> root stopf fuel p hist tt <> None.
Proof. exact root_total_const. Qed.
Theorem C15_node_search_returns : forall (stopf : Stats -> bool) p s alpha beta ply depth cn fuel,
  InvSR p -> t_len (ss_tt s) <> 0%N -> (0 <= halfmoves p)%Z -> (101 * Z.max depth 0 + 48615 <= Z.of_nat fuel)%Z ->
  negamax stopf fuel p s alpha beta ply depth cn <> None.
Proof. exact negamax_total_const. Qed.
Theorem C15_quiescence_returns : forall p st a b ply fuel, Inv16R p -> (32 < fuel)%nat -> qsearch fuel p st a b ply <> None.
Proof. exact qsearch_total_33. Qed.

Theorem C15_session_starts_in_the_invariant : forall lines s ready rest,
  phase1 init_state lines = Some (s, ready, rest) ->
  SessInv (mkU (u_pos s) (u_hist s) (tt_resize (u_tt s) (u_hash s)) (u_hash s) (u_frc s)).
Proof. exact init_inv. Qed.

Theorem C15_every_command_keeps_the_invariant : forall mode s l s' o,
  SessInv s -> Uci.step mode s l = Cont s' o -> PosLineOK mode s l -> SessInv s'.
Proof. exact step_inv. Qed.

Theorem C15_every_reached_state_is_in_the_invariant : forall mode lines s s',
  SessInv s -> script_dom mode s lines -> Reached mode s lines s' -> SessInv s'.
Proof. exact reached_inv. Qed.

Theorem C15_session_never_panics : forall mode lines s out,
  SessInv s -> script_ok mode s lines -> forall site, phase2 mode s lines out <> Panic site.
Proof. exact phase2_no_panic. Qed.

Theorem C15_whole_session_never_panics : forall mode lines,
  (forall s ready rest, phase1 init_state lines = Some (s, ready, rest) -> script_ok mode (start_state s) rest) ->
  forall site, run_session mode lines <> Panic site.
Proof. exact run_session_safe. Qed.

(* unconditional: scripts whose position lines all say startpos *)
Theorem C15_startpos_sessions_never_panic : forall mode lines,
  Forall startpos_line lines -> forall site, run_session mode lines <> Panic site.
Proof. exact run_session_startpos_safe. Qed.

(* in every reached state the table has at least one slot: the search cannot divide by zero in the slot index *)
Theorem C15_table_never_empty : forall s, SessInv s -> t_len (u_tt s) <> 0.
Proof. exact sess_table_nonempty. Qed.

Print Assumptions C15_step_no_panic_unless_position.
Print Assumptions C15_position_panics_iff_fen_rejected.
Print Assumptions C15_root_search_returns.
Print Assumptions C15_node_search_returns.
Print Assumptions C15_quiescence_returns.
Print Assumptions C15_session_starts_in_the_invariant.
Print Assumptions C15_every_command_keeps_the_invariant.
Print Assumptions C15_every_reached_state_is_in_the_invariant.
Print Assumptions C15_session_never_panics.
Print Assumptions C15_whole_session_never_panics.
Print Assumptions C15_startpos_sessions_never_panic.
Print Assumptions C15_table_never_empty.
