(* C15 -- no crash on well-formed commands: what is PROVED is the command layer of the model (Uci.v):
   the only line that can make `step` panic is `position` with a FEN the parser rejects (outside the property:
   well-formed scripts carry valid FENs); and the SEARCH of the model never gets stuck: on every position satisfying the invariant,
   with any table that has at least one slot, `root`, `negamax` and `qsearch` return for every limit (explicit recursion-depth bounds,
   SearchTotal.v / FuelFacts.v) -- the only way to `None` left in the model is a zero-length table (division by zero in the slot
   index: the setoption handlers clamp the size to >= 1 MB).  PARTIAL by nature: arithmetic traps inside the Rust code, the real
   stack depth (the bound is a recursion depth of the model, tens of thousands in the worst case of mutual checks), memory and OS
   behaviour are covered by running both binaries on generated scripts. *)
From Coq Require Import NArith ZArith List Bool String.
From Rawr Require Import Consts Bits Magic Position MoveGen MakeMove Fen Eval TT Search Uci UciFacts MakeStages Closure MenCount EpRetro SearchTotal FuelFacts.
Import ListNotations.
Local Open Scope N_scope.

Theorem C15_step_no_panic_unless_position : forall mode s c args site,
  step mode s (c :: args) = Panic site -> tok_is c "position" = true.
Proof. exact step_no_panic_unless_position. Qed.

Theorem C15_position_panics_iff_fen_rejected : forall mode toks p,
  position_cmd mode toks p = None <->
  set_fen mode (is_frc p)
    (fst (match toks with
          | t :: rest => if tok_is t "startpos" then (lit "startpos", tl rest)
                         else if tok_is t "fen" then (let '(f, r) := take_fen rest [] in (trim_end f, r)) else ([], rest)
          | [] => ([], [])
          end)) = None.
Proof. exact position_panics_iff_fen_rejected. Qed.

(* the search does not get stuck: termination with explicit bounds (any stop predicate, window, ply, depth, history) *)
Theorem C15_root_search_returns : forall (stopf : Stats -> bool) p hist tt fuel,
  InvSR p -> t_len tt <> 0%N -> (0 <= halfmoves p)%Z -> (61442 <= Z.of_nat fuel)%Z -> root stopf fuel p hist tt <> None.
Proof. exact root_total_const. Qed.
Theorem C15_node_search_returns : forall (stopf : Stats -> bool) p s alpha beta ply depth cn fuel,
  InvSR p -> t_len (ss_tt s) <> 0%N -> (0 <= halfmoves p)%Z -> (101 * Z.max depth 0 + 48615 <= Z.of_nat fuel)%Z ->
  negamax stopf fuel p s alpha beta ply depth cn <> None.
Proof. exact negamax_total_const. Qed.
Theorem C15_quiescence_returns : forall p st a b ply fuel, Inv16R p -> (32 < fuel)%nat -> qsearch fuel p st a b ply <> None.
Proof. exact qsearch_total_33. Qed.

Print Assumptions C15_step_no_panic_unless_position.
Print Assumptions C15_position_panics_iff_fen_rejected.
Print Assumptions C15_root_search_returns.
Print Assumptions C15_node_search_returns.
Print Assumptions C15_quiescence_returns.
