(* C15 -- no crash on well-formed commands: what is PROVED is the command layer of the model (Uci.v):
   the only line that can make `step` panic is `position` with a FEN the parser rejects (outside the property:
   well-formed scripts carry valid FENs).  PARTIAL by nature: arithmetic traps inside the search and the move
   generator, stack depth, memory and OS behaviour are covered by running both binaries on generated scripts. *)
From Coq Require Import NArith ZArith List Bool String.
From Rawr Require Import Consts Bits Magic Position MoveGen MakeMove Fen Eval TT Search Uci UciFacts.
Import ListNotations.
Local Open Scope N_scope.

Theorem C15_step_no_panic_unless_position : forall mode s c args site,
  step mode s (c :: args) = Panic site -> tok_is c "position" = true.
Proof. exact step_no_panic_unless_position. Qed.

Theorem C15_position_panics_iff_fen_rejected : forall mode toks p,
  position_cmd mode toks p = None <->
  set_fen mode (is_frc p)
    (fst (match toks with
          | t :: rest => if tok_is t "startpos" then (lit "startpos", tl rest)
                         else if tok_is t "fen" then (let '(f, r) := take_fen rest [] in (trim_end f, r)) else ([], rest)
          | [] => ([], [])
          end)) = None.
Proof. exact position_panics_iff_fen_rejected. Qed.

Print Assumptions C15_step_no_panic_unless_position.
Print Assumptions C15_position_panics_iff_fen_rejected.
