(* C20 -- style tool: the statistics stay consistent and every style score lies in [0,1]; nothing divides by zero.
   Two layers, both modelled from tools/style/style.py:
   * arithmetic (model/Style.v, exact rationals): under SInv = the tool's own is_valid conditions plus the facts the game
     analysis establishes (distance histograms sum to the capture / non-capture counts, threats <= moves, the early-pawn-push
     potential bound, at least one game) every feature is defined and in [0,1], hence the three scores (StyleFacts.v);
   * games (model/StyleGame.v): analyse_game / Stats.add_capture / add_noncapture / add_pawn_push / finish_game over the model
     of the engine's own position code in place of python-chess.  For EVERY non-empty list of games, each any sequence of
     generated (= legal by C01) moves from the standard starting position, any result headers, either side:
     is_valid holds and SInv holds (StyleGames.v: counting StyleCount.v, pawn potential StylePotential.v over the pawn
     facts StylePawns.v, low ranks StyleValid.v), so the scores are numbers in [0,1].  No length bound is needed in the
     model; the tool's game_length array has 1024 entries (the property's bound), which the model's sparse list does not have.
   Not modelled: float rounding (the tool computes in floats, the model in Q; compared to 1e-9 on every generated game set),
   the PGN reader, python-chess (replaced by tools/chess_stub in the correspondence run). *)
From Coq Require Import ZArith QArith List Bool.
From Rawr Require Import Position MoveGen GenLegal Style StyleGame StyleFacts StyleInv StyleGames.
Import ListNotations.
Local Open Scope Q_scope.

Theorem C20_aggression_in_unit : forall s, SInv s -> 0 <= total_pawn_pushes s ->
  exists q, aggression_score s = Score q /\ 0 <= q /\ q <= 1.
Proof. exact aggression_in_unit. Qed.

Theorem C20_positional_in_unit : forall s, SInv s -> exists q, positional_score s = Score q /\ 0 <= q /\ q <= 1.
Proof. exact positional_in_unit. Qed.

Theorem C20_pawn_pusher_in_unit : forall s, 0 < num_games s -> exists q, pawn_pusher_score s = Score q /\ 0 <= q /\ q <= 1.
Proof. exact pawn_pusher_in_unit. Qed.

Theorem C20_games_give_consistent_statistics_and_scores_in_unit : forall side games, games <> [] -> Forall played games ->
  let s := analyse_games side games in
  is_valid s = true
  /\ (exists q, aggression_score s = Score q /\ 0 <= q /\ q <= 1)
  /\ (exists q, positional_score s = Score q /\ 0 <= q /\ q <= 1)
  /\ (exists q, pawn_pusher_score s = Score q /\ 0 <= q /\ q <= 1).
Proof. exact style_scores_of_games. Qed.
(* the assertion of the main loop (is_valid after every analysed game): every prefix of a list of played games is one *)
Theorem C20_valid_after_every_game : forall side games, Forall played games -> is_valid (analyse_games side games) = true.
Proof. exact analyse_games_valid. Qed.
Theorem C20_games_establish_the_invariant : forall side games, games <> [] -> Forall played games -> SInv (analyse_games side games).
Proof. exact analyse_games_SInv. Qed.
Theorem C20_no_games_no_scores : forall side, let s := analyse_games side [] in
  aggression_score s = NoGames /\ positional_score s = NoGames /\ pawn_pusher_score s = NoGames.
Proof. exact no_games_no_scores. Qed.
(* non-vacuity: 1.e4 d5 2.exd5 (1-0) and a game without moves (1/2-1/2) are played games *)
Example C20_played_somewhere :
  Forall played [(WhiteWins, [mkMv 12 28 NOPIECE; mkMv 11 27 NOPIECE; mkMv 28 35 NOPIECE]%N); (DrawnGame, [])].
Proof. exact two_games_played. Qed.
Print Assumptions C20_aggression_in_unit.
Print Assumptions C20_positional_in_unit.
Print Assumptions C20_pawn_pusher_in_unit.
Print Assumptions C20_games_give_consistent_statistics_and_scores_in_unit.
Print Assumptions C20_valid_after_every_game.
Print Assumptions C20_games_establish_the_invariant.
Print Assumptions C20_no_games_no_scores.
