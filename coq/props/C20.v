(* C20 -- style tool: every style score lies in [0,1] and nothing divides by zero (arithmetic layer of style.py,
   modelled over exact rationals in model/Style.v).  SInv = the tool's own is_valid conditions plus the facts the
   game analysis establishes (distance histograms sum to the capture / non-capture counts, threats <= moves, the
   early-pawn-push potential bound of DESIGN A9, at least one game).  PARTIAL: that analyse_game establishes SInv for
   every set of games is measured on generated games (the premises are evaluated exactly on the real tool's
   statistics), not proved; float rounding is not modelled. *)
From Coq Require Import ZArith QArith List Bool.
From Rawr Require Import Style StyleFacts.
Local Open Scope Q_scope.

Theorem C20_aggression_in_unit : forall s, SInv s -> 0 <= total_pawn_pushes s ->
  exists q, aggression_score s = Score q /\ 0 <= q /\ q <= 1.
Proof. exact aggression_in_unit. Qed.

Theorem C20_positional_in_unit : forall s, SInv s -> exists q, positional_score s = Score q /\ 0 <= q /\ q <= 1.
Proof. exact positional_in_unit. Qed.

Theorem C20_pawn_pusher_in_unit : forall s, 0 < num_games s -> exists q, pawn_pusher_score s = Score q /\ 0 <= q /\ q <= 1.
Proof. exact pawn_pusher_in_unit. Qed.

Print Assumptions C20_aggression_in_unit.
Print Assumptions C20_positional_in_unit.
Print Assumptions C20_pawn_pusher_in_unit.
