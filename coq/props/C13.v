(* C13 -- searching leaves the game state untouched and is reproducible (model level).
   The history is threaded through the model exactly as the Rust pushes and pops it; the position is passed by value. *)
From Coq Require Import NArith ZArith List Bool String.
From Rawr Require Import Consts Bits Magic Position MoveGen MakeMove Eval TT Search SearchFacts FuelFacts Uci SessionSearch.
Local Open Scope Z_scope.

(* whatever the stop predicate (depth, node or time limit), window, depth, table and history: a search that returns
   gives back the history it was given *)
Theorem C13_negamax_keeps_history : forall (stopf : Stats -> bool) fuel p s alpha beta ply depth can_null v s',
  negamax stopf fuel p s alpha beta ply depth can_null = Some (v, s') -> ss_hist s' = ss_hist s.
Proof. exact negamax_keeps_history. Qed.

Theorem C13_root_keeps_history : forall (stopf : Stats -> bool) fuel p hist tt r,
  root stopf fuel p hist tt = Some r -> ss_hist (rr_state r) = hist.
Proof. exact root_keeps_history. Qed.

(* reproducibility: the model is a function; equal inputs (position, history, table, limit) give equal reports.
   Stated for completeness -- it is what makes the comparison of two real runs meaningful, not a deep fact. *)
Theorem C13_search_deterministic : forall (l : Limit) fuel p hist tt1 tt2,
  tt1 = tt2 -> root (stop_of l) fuel p hist tt1 = root (stop_of l) fuel p hist tt2.
Proof. intros l fuel p hist tt1 tt2 ->. reflexivity. Qed.


(* ---- what "modulo fuel" means: a result, once defined, is the same for every larger amount of fuel (the fuel of the model only
   bounds the recursion depth; it is not an input of the search) *)
Theorem C13_result_does_not_depend_on_fuel : forall (stopf : Stats -> bool) f f' p hist tt r, (f <= f')%nat ->
  root stopf f p hist tt = Some r -> root stopf f' p hist tt = Some r.
Proof. exact root_fuel_mono. Qed.

(* at the level of the command loop: a go command of any kind, however the search ends, leaves the position, the game history,
   the Hash option and the Chess960 flag as they were (only the table may change) *)
Theorem C13_go_leaves_the_game_state_alone : forall mode s args s' o,
  step mode s (lit "go"%string :: args) = Cont s' o ->
  u_pos s' = u_pos s /\ u_hist s' = u_hist s /\ u_hash s' = u_hash s /\ u_frc s' = u_frc s.
Proof. exact step_go_keeps_game. Qed.

Print Assumptions C13_negamax_keeps_history.
Print Assumptions C13_root_keeps_history.
Print Assumptions C13_search_deterministic.
Print Assumptions C13_result_does_not_depend_on_fuel.
Print Assumptions C13_go_leaves_the_game_state_alone.
