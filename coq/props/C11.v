(* C11 -- moves into rule draws are scored as draws.  PARTIAL.
   Proved on the model: a non-root node of positive depth that is not interrupted returns DRAW_SCORE when its
   half-move clock has reached 100 or when its key occurs twice (itself and an earlier position of the same side to
   move) inside the look-back window of halfmoves + 1 history entries.  The root-level statement (every iteration >= 2
   reports -DRAW_SCORE when all successors are such nodes) is decided by the correspondence run. *)
From Coq Require Import NArith ZArith List Bool.
From Rawr Require Import Consts Bits Magic Position MoveGen MakeMove Eval TT Search SearchFacts2.
Import ListNotations.
Local Open Scope Z_scope.

Theorem C11_draw_by_clock : forall stopf rec qrec p s ao alpha beta ply depth in_chk is_pv cn ttm,
  0 < depth -> stopf (ss_stats s) = false -> 100 <= halfmoves p ->
  nm_prune stopf rec qrec p s ao alpha beta ply depth in_chk false is_pv cn ttm = Some (DRAW_SCORE, s).
Proof. exact draw_by_clock. Qed.

Theorem C11_draw_by_repetition : forall stopf rec qrec p s ao alpha beta ply depth in_chk is_pv cn ttm,
  0 < depth -> stopf (ss_stats s) = false ->
  2 <= count_rep (Z.to_nat (halfmoves p + 1)) (ss_hist s) (hash p) true ->
  nm_prune stopf rec qrec p s ao alpha beta ply depth in_chk false is_pv cn ttm = Some (DRAW_SCORE, s).
Proof. exact draw_by_repetition. Qed.

(* the move loop: when every successor answers with the draw score -- whatever window, depth and table it is searched
   with -- the loop's best score is -DRAW_SCORE, its best move is the first move, no re-search changes that, and the
   history is restored.  (That the successors of an all-drawn root do answer so is C11_draw_by_clock /
   C11_draw_by_repetition plus "no table cut-off", which holds from an empty table while keys do not clash.) *)
Theorem C11_root_loop_all_draw : forall rec p,
  (forall m s a b pl d cn, exists s', rec (makemove true p m) s a b pl d cn = Some (DRAW_SCORE, s') /\ ss_hist s' = ss_hist s) ->
  forall in_chk beta ply depth m ms s,
  - DRAW_SCORE < beta -> - INF < - DRAW_SCORE ->
  exists a' s', n_loop rec p in_chk beta ply depth (m :: ms) 0 s (- INF) (- INF) None
                = Some (a', - DRAW_SCORE, Some m, s')
                /\ ss_hist s' = ss_hist s.
Proof. exact root_loop_all_draw. Qed.

(* the window really reaches the position that arose from the last capture or pawn move: with clock 4 and history
   [current; a; b; c; first-after-capture = current] the repetition is counted (the defect repaired in 8ccaad1) *)
Example C11_window_example : count_rep (Z.to_nat (4 + 1)) [7; 1; 2; 3; 7]%N 7%N true = 2.
Proof. vm_compute. reflexivity. Qed.

Print Assumptions C11_draw_by_clock.
Print Assumptions C11_draw_by_repetition.
Print Assumptions C11_root_loop_all_draw.
