(* C11 -- moves into rule draws are scored as draws.
   PROVED on the model at the root level, in two forms.
   (a) C11_root_all_drawn_any_table: for EVERY table with bounded scores (so in particular the empty table of the property text,
   with no condition on key clashes, and equally a table full of misleading entries), every history and depth limit d >= 1 (and the
   unlimited search), a root satisfying the invariant whose every generated move leads to a position that is rule-drawn as the child
   node sees it (half-move clock >= 100, or its key occurs again in the look-back window of halfmoves + 1 entries of the history the
   root hands down): every reported iteration of depth >= 2 carries the score -DRAW_SCORE and the answer is a legal move.  Reason: a
   rule-drawn child searched with an open window returns the draw score before anything else can happen to it; on a zero window a
   table entry may be believed instead, but such a score either fails low (ignored: the best stays at the first move's draw score) or
   is searched again with the open window.  C11_misleading_table_run is a run with every successor's key holding a bounded, deep,
   exact entry of -900000.
   (b) C11_root_all_drawn (earlier): for every stop predicate -- interrupted searches included -- from an empty table and with no
   successor key equal to the root's key.
   Iteration 1 is excluded by the property text and rightly so (its children sit at the horizon and the quiescence search has no draw
   test).  Node-level lemmas: C11_draw_by_clock, C11_draw_by_repetition, C11_root_loop_all_draw. *)
From Coq Require Import NArith ZArith List Bool.
From Rawr Require Import Consts Bits Magic Position MoveGen MakeMove Eval TT Search MakeStages SearchFacts2 Closure MenCount EpRetro SearchBound RootDraw RootDrawAny.
Import ListNotations.
Local Open Scope Z_scope.

Theorem C11_draw_by_clock : forall stopf rec qrec p s ao alpha beta ply depth in_chk is_pv cn ttm,
  0 < depth -> stopf (ss_stats s) = false -> 100 <= halfmoves p ->
  nm_prune stopf rec qrec p s ao alpha beta ply depth in_chk false is_pv cn ttm = Some (DRAW_SCORE, s).
Proof. exact draw_by_clock. Qed.

Theorem C11_draw_by_repetition : forall stopf rec qrec p s ao alpha beta ply depth in_chk is_pv cn ttm,
  0 < depth -> stopf (ss_stats s) = false ->
  2 <= count_rep (Z.to_nat (halfmoves p + 1)) (ss_hist s) (hash p) true ->
  nm_prune stopf rec qrec p s ao alpha beta ply depth in_chk false is_pv cn ttm = Some (DRAW_SCORE, s).
Proof. exact draw_by_repetition. Qed.

(* the move loop: when every successor answers with the draw score -- whatever window, depth and table it is searched
   with -- the loop's best score is -DRAW_SCORE, its best move is the first move, no re-search changes that, and the
   history is restored.  (That the successors of an all-drawn root do answer so is C11_draw_by_clock /
   C11_draw_by_repetition plus "no table cut-off", which holds from an empty table while keys do not clash.) *)
Theorem C11_root_loop_all_draw : forall rec p,
  (forall m s a b pl d cn, exists s', rec (makemove true p m) s a b pl d cn = Some (DRAW_SCORE, s') /\ ss_hist s' = ss_hist s) ->
  forall in_chk beta ply depth m ms s,
  - DRAW_SCORE < beta -> - INF < - DRAW_SCORE ->
  exists a' s', n_loop rec p in_chk beta ply depth (m :: ms) 0 s (- INF) (- INF) None
                = Some (a', - DRAW_SCORE, Some m, s')
                /\ ss_hist s' = ss_hist s.
Proof. exact root_loop_all_draw. Qed.

(* the window really reaches the position that arose from the last capture or pawn move: with clock 4 and history
   [current; a; b; c; first-after-capture = current] the repetition is counted (the defect repaired in 8ccaad1) *)
Example C11_window_example : count_rep (Z.to_nat (4 + 1)) [7; 1; 2; 3; 7]%N 7%N true = 2.
Proof. vm_compute. reflexivity. Qed.

(* ---- the root-level statement *)
Theorem C11_root_all_drawn : forall (stopf : Stats -> bool) fuel p hist tt r,
  InvSR p -> Z.of_nat fuel <= 2 * MATE_SCORE -> legal_moves p <> [] ->
  table_empty tt ->
  (forall m, In m (legal_moves p) -> rule_drawn (makemove true p m) hist) ->
  no_clash p ->
  root stopf fuel p hist tt = Some r ->
  (forall i, In i (rr_infos r) -> 2 <= i_depth i -> i_score i = - DRAW_SCORE)
  /\ exists m, rr_best r = Some m /\ In m (legal_moves p).
Proof. exact root_all_drawn. Qed.
Theorem C11_new_and_cleared_tables_are_empty : forall mb t, table_empty (tt_new mb) /\ table_empty (tt_clear t).
Proof. intros mb t. split; [apply table_empty_new|apply table_empty_clear]. Qed.

Theorem C11_root_all_drawn_any_table : forall d fuel p hist tt r,
  InvSR p -> TBnd tt -> Z.of_nat fuel <= 2 * MATE_SCORE -> legal_moves p <> [] ->
  (forall m, In m (legal_moves p) -> rule_drawn (makemove true p m) hist) ->
  1 <= d ->
  root (stop_of (LDepth d)) fuel p hist tt = Some r ->
  (forall i, In i (rr_infos r) -> 2 <= i_depth i -> i_score i = - DRAW_SCORE)
  /\ exists m, rr_best r = Some m /\ In m (legal_moves p).
Proof. exact root_all_drawn_any_table. Qed.

Theorem C11_root_all_drawn_any_table_unlimited : forall fuel p hist tt r,
  InvSR p -> TBnd tt -> Z.of_nat fuel <= 2 * MATE_SCORE -> legal_moves p <> [] ->
  (forall m, In m (legal_moves p) -> rule_drawn (makemove true p m) hist) ->
  root (stop_of LNever) fuel p hist tt = Some r ->
  (forall i, In i (rr_infos r) -> 2 <= i_depth i -> i_score i = - DRAW_SCORE)
  /\ exists m, rr_best r = Some m /\ In m (legal_moves p).
Proof. exact root_all_drawn_any_table_unlimited. Qed.

(* K+R v K, clock 99: all 15 moves bring the clock to 100; every successor's key holds an exact depth-100 entry of -900000 *)
Theorem C11_misleading_table_run :
  TBnd ex_table /\
  match root (stop_of (LDepth 4)) 50 RootDraw.ex_pos [hash RootDraw.ex_pos] ex_table with
  | Some r => map (fun i => (i_depth i, i_score i)) (rr_infos r)
  | None => []
  end = [(1, 512); (2, 50); (3, 50); (4, 50)].
Proof. exact (conj ex_table_TBnd ex_run_poisoned). Qed.

Print Assumptions C11_draw_by_clock.
Print Assumptions C11_draw_by_repetition.
Print Assumptions C11_root_loop_all_draw.
Print Assumptions C11_root_all_drawn.
Print Assumptions C11_new_and_cleared_tables_are_empty.
Print Assumptions C11_root_all_drawn_any_table.
Print Assumptions C11_root_all_drawn_any_table_unlimited.
Print Assumptions C11_misleading_table_run.
