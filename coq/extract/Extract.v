(* Extraction of the executable model for the correspondence check.  ExtrOcamlBasic only:
   bool/option/unit/prod/list/sumbool/comparison map to OCaml's own types; N, Z, positive, nat stay
   the extracted inductives.  No Extract Constant. *)
From Coq Require Import NArith ZArith List Extraction ExtrOcamlBasic.
From Rawr Require Import Consts Bits Magic Position MoveGen MakeMove Fen Eval TT Search Uci Rules Abs UciSpec GameTree Style StyleGame MakeStages.

Extraction Language OCaml.
Extraction "model.ml"
  BISHOP_STUFF_BUILD ROOK_STUFF_BUILD BISHOP_SHIFT_BUILD ROOK_SHIFT_BUILD NOT_A_BUILD NOT_H_BUILD
  MAGIC_LEN gen_table tget lib_bishop_index lib_rook_index knight_moves king_moves
  bishop_walk rook_walk
  ray_ne ray_nw ray_se ray_sw ray_n ray_s ray_e ray_w knights_bb pawns_bb adjacent
  popcount lsb hsb bswap bits
  startpos flip validate is_sq_attacked is_bb_attacked get_attacked in_check in_check_them is_capture
  move_generator legal_moves legal_captures count_moves
  predict_hash calculate_hash makemove makenull perft
  set_fen from_fen get_fen to_uci show_sq
  eval eval_us
  tt_new tt_poll tt_add tt_hashfull tt_resize tt_clear t_len slot t_new_empty t_poll t_add t_hashfull t_resize t_clear
  qsearch negamax root stop_of stats0
  abs_state board_of spec_legal spec_attacked dec enc apply pass_turn legal captures checkmate stalemate leaves in_check_of
  run_session step position_cmd moves_cmd find_move display_pos init_state lit set_frc
  move_str denotes play_tokens qvalue_b mating_moves
  aggression_score positional_score pawn_pusher_score Style.is_valid analyse_games analyse_game empty_stats
  valid_b ep_retro material in_D consistent
  premises_b cpremises_b refines_b key_move_b key_pos_b attack_pre_b good_pos_b inv_b invs_b ep_ok_b invr_b
  N.of_nat N.to_nat Z.of_N Z.to_N Z.of_nat.
